# sourced by every entry point
export GOFLAGS=-mod=mod GOPROXY=off GOSUMDB=off GOTOOLCHAIN=local
export VERIF_ROOT=/verif
