# sourced by every entry point
export GOFLAGS=-mod=mod GOPROXY=off GOSUMDB=off GOTOOLCHAIN=local
# A build cache of our own, bounded: every batch of generated packages is
# compiled once and never needed again, and Go only trims entries after days.
# (The default cache grew to 129 GB in one day of runs.) It is emptied when it
# outgrows the cap and no other check is using it; it is rebuilt on demand.
export GOCACHE="${VERIF_GOCACHE:-/var/tmp/verif-gocache}"
mkdir -p "$GOCACHE"
exec 9>"$GOCACHE.lock"
if flock -n -x 9; then
  if [ "$(du -sm "$GOCACHE" 2>/dev/null | cut -f1)" -gt "${VERIF_GOCACHE_MAX_MB:-12000}" ]; then
    rm -rf "$GOCACHE"; mkdir -p "$GOCACHE"
  fi
fi
flock -s 9   # shared for the life of this process tree (fd 9 is inherited)
