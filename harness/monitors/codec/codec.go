// Package codec holds the child-side monitors for the wire codec: C02
// (byte-exact round trip against refcodec) and C03 (totality and canonicity on
// arbitrary bytes).
package codec

import (
	"bytes"
	"encoding/hex"
	"fmt"
	"io"
	"runtime/debug"
	"strings"

	"go.uber.org/thriftrw/protocol/binary"
	"go.uber.org/thriftrw/wire"
	"verif/harness/core"
	rc "verif/harness/refcodec"
	wb "verif/harness/wbridge"
)

func hx(b []byte) string {
	if len(b) > 256 {
		return hex.EncodeToString(b[:256]) + fmt.Sprintf("…(+%d bytes)", len(b)-256)
	}
	return hex.EncodeToString(b)
}

func guard(c *core.Child, i uint64, what string, detail func() map[string]any, fn func()) {
	defer func() {
		if p := recover(); p != nil {
			st := string(debug.Stack())
			d := detail()
			d["panic"] = fmt.Sprint(p)
			d["stack"] = st
			c.Violation(i, what+": panic: "+fmt.Sprint(p), "panic:"+topFrame(st), d)
		}
	}()
	fn()
}

func topFrame(st string) string {
	for _, l := range strings.Split(st, "\n") {
		if strings.HasPrefix(l, "go.uber.org/thriftrw") {
			if k := strings.Index(l, "("); k > 0 {
				return l[:k]
			}
			return l
		}
	}
	return ""
}

// C02 ------------------------------------------------------------------------

var shapes []rc.W

func C02(c *core.Child) {
	if c.Stream == "exh" {
		shapes = rc.SmallShapes()
	}
	c.Loop(func(i uint64, r *core.Rand) {
		var w rc.W
		switch c.Stream {
		case "exh":
			if int(i) >= len(shapes) {
				return
			}
			w = shapes[i]
		case "binlen":
			// every binary length 0..4200, alone and as a struct field between
			// two other fields (framing errors show in what follows)
			n := int(i / 2)
			b := r.Bytes(n)
			if i%2 == 0 {
				w = rc.Binary(b)
			} else {
				w = rc.Struct(rc.Field{ID: 1, V: rc.I32(int32(n))}, rc.Field{ID: 2, V: rc.Binary(b)}, rc.Field{ID: 3, V: rc.Binary([]byte("tail"))})
			}
		case "long":
			// long containers of scalar elements: batching / buffering paths
			lens := []int{63, 64, 65, 127, 128, 129, 255, 256, 257, 511, 512, 513, 1000, 1023, 1024, 1025, 2048, 4097, 10000}
			n := lens[r.Intn(len(lens))]
			if r.Chance(1, 3) {
				n = r.Range(50, 3000)
			}
			et := rc.AllTypes[r.Intn(7)]
			o := rc.GenOpts{MaxBin: 6, NaN: true, Budget: 1 << 30}
			switch r.Intn(3) {
			case 0:
				w = rc.W{T: rc.TList, VT: et}
			case 1:
				w = rc.W{T: rc.TSet, VT: et}
			default:
				w = rc.W{T: rc.TMap, KT: et, VT: rc.AllTypes[r.Intn(7)]}
			}
			for k := 0; k < n; k++ {
				if w.T == rc.TMap {
					w.Items = append(w.Items, rc.Gen(r, w.KT, o))
				}
				w.Items = append(w.Items, rc.Gen(r, w.VT, o))
			}
			if r.Bool() { // nested in a struct with a sentinel after it
				w = rc.Struct(rc.Field{ID: 1, V: w}, rc.Field{ID: 2, V: rc.I64(-2)})
			}
		case "bigpair":
			// several binaries beyond the readers' 1 MiB staging size in ONE value,
			// each with its own content: buffer reuse between them shows as one
			// taking the bytes of another
			sizes := []int{1<<20 + 1, 1<<20 + 4096, 1 << 21, 1<<20 - 1, 3 << 19}
			mk := func() rc.W {
				n := sizes[r.Intn(len(sizes))] + r.Intn(3)
				b := make([]byte, n)
				seed := r.Uint64()
				for k := range b {
					seed = seed*6364136223846793005 + 1442695040888963407
					b[k] = byte(seed >> 56)
				}
				return rc.Binary(b)
			}
			switch r.Intn(3) {
			case 0:
				w = rc.W{T: rc.TList, VT: rc.TBinary, Items: []rc.W{mk(), mk(), rc.Binary([]byte("small")), mk()}}
			case 1:
				w = rc.Struct(rc.Field{ID: 1, V: mk()}, rc.Field{ID: 2, V: rc.I32(7)}, rc.Field{ID: 3, V: mk()})
			default:
				w = rc.W{T: rc.TMap, KT: rc.TBinary, VT: rc.TBinary, Items: []rc.W{mk(), mk(), mk(), mk()}}
			}
		case "big":
			o := rc.DefaultGen
			o.BigBin = true
			o.MaxDepth = 2
			o.MaxLen = 3
			w = rc.Gen(r, []byte{rc.TBinary, rc.TStruct, rc.TList, rc.TMap}[r.Intn(4)], o)
		case "wide":
			o := rc.GenOpts{MaxDepth: 3, MaxLen: 60, MaxBin: 300, NaN: true, Budget: 2000}
			w = rc.GenAny(r, o)
		case "deep":
			o := rc.GenOpts{MaxDepth: 8, MaxLen: 3, MaxBin: 8, NaN: true, Budget: 600}
			w = rc.GenAny(r, o)
		default:
			w = rc.GenAny(r, rc.DefaultGen)
		}
		c.DumpCase(map[string]any{"tree": w.String()})
		checkRoundTrip(c, i, r, w)
	})
}

func checkRoundTrip(c *core.Child, i uint64, r *core.Rand, w rc.W) {
	ref := rc.Encode(w)
	c.Count("cases", 1)
	det := func() map[string]any {
		return map[string]any{"tree": w.String(), "type": w.T, "ref_hex": hx(ref)}
	}
	bad := func(what string, extra map[string]any) {
		d := det()
		for k, v := range extra {
			d[k] = v
		}
		c.Violation(i, what, "", d)
	}
	if len(ref) >= 4 {
		c.Nontrivial(core.HashBytes([]byte{w.T}, ref))
	}
	c.Count(fmt.Sprintf("type_%d", w.T), 1)
	guard(c, i, "C02 round trip", det, func() {
		// (1) value-based encoder
		var buf bytes.Buffer
		if err := binary.Default.Encode(wb.ToWire(w), &buf); err != nil {
			bad("Encode failed on a well-typed value: "+err.Error(), nil)
		} else if !bytes.Equal(buf.Bytes(), ref) {
			bad("Encode output differs from the spec encoding", map[string]any{"got_hex": hx(buf.Bytes())})
		}
		// (2) stream writer
		var sbuf bytes.Buffer
		sw := binary.Default.Writer(&sbuf)
		err := wb.StreamWrite(sw, w)
		sw.Close()
		if err != nil {
			bad("stream writer failed: "+err.Error(), nil)
		} else if !bytes.Equal(sbuf.Bytes(), ref) {
			bad("stream writer output differs from the spec encoding", map[string]any{"got_hex": hx(sbuf.Bytes())})
		}
		// (3) random-access decode + force
		v, err := binary.Default.Decode(bytes.NewReader(ref), wire.Type(w.T))
		if err != nil {
			bad("Decode rejected a spec encoding: "+err.Error(), nil)
		} else {
			got, err := wb.FromWire(v)
			if err != nil {
				bad("forcing the decoded value failed: "+err.Error(), nil)
			} else if !rc.Equal(got, w) {
				bad("Decode yields a different value", map[string]any{"got": got.String()})
			}
		}
		// (3b) the same over a ReaderAt that reports io.EOF together with the last bytes
		if v, err := binary.Default.Decode(wb.EagerAt{B: ref}, wire.Type(w.T)); err != nil {
			bad("Decode over a ReaderAt that returns io.EOF with the last bytes rejected a spec encoding: "+err.Error(), nil)
		} else if got, err := wb.FromWire(v); err != nil || !rc.Equal(got, w) {
			bad(fmt.Sprintf("Decode over a ReaderAt that returns io.EOF with the last bytes yields a different value (err=%v)", err), nil)
		}
		// EvaluateValue releases the lazy containers it walks, so it gets its own
		// decode and the value is not touched afterwards.
		if ve, err := binary.Default.Decode(bytes.NewReader(ref), wire.Type(w.T)); err == nil {
			if err := wire.EvaluateValue(ve); err != nil {
				bad("EvaluateValue failed on a spec encoding: "+err.Error(), nil)
			}
		}
		// (4) random access at a non-zero offset, with trailing bytes
		k := r.Intn(9)
		pre := r.Bytes(k)
		in := append(append(append([]byte{}, pre...), ref...), r.Bytes(r.Intn(4))...)
		rd := binary.NewReader(bytes.NewReader(in))
		v2, off, err := rd.ReadValue(wire.Type(w.T), int64(k))
		if err != nil {
			bad(fmt.Sprintf("ReadValue at offset %d rejected a spec encoding: %v", k, err), nil)
		} else {
			got, err := wb.FromWire(v2)
			if err != nil || !rc.Equal(got, w) {
				bad(fmt.Sprintf("ReadValue at offset %d yields a different value (err=%v)", k, err), map[string]any{"got": got.String()})
			}
			if off != int64(k+len(ref)) {
				bad(fmt.Sprintf("ReadValue at offset %d returned end offset %d, want %d", k, off, k+len(ref)), nil)
			}
		}
		// (5) stream reader under a chunking, trailing junk must not be consumed
		class := int(i % wb.NumChunkings)
		in2 := append(append([]byte{}, ref...), 0xAA, 0xBB, 0xCC)
		if class == wb.ChunkEagerEOF {
			in2 = ref // the point of this class is the read that ends exactly at the end
		}
		cr := wb.NewChunkReader(in2, class, r.Uint64())
		sr := binary.Default.Reader(cr)
		budget := 1 << 22
		got, err := wb.StreamRead(sr, w.T, &budget)
		sr.Close()
		c.Count("chunk_"+wb.ChunkNames[class], 1)
		if err != nil {
			bad(fmt.Sprintf("stream reader (%s) rejected a spec encoding: %v", wb.ChunkNames[class], err), nil)
		} else {
			if !rc.Equal(got, w) {
				bad(fmt.Sprintf("stream reader (%s) yields a different value", wb.ChunkNames[class]), map[string]any{"got": got.String()})
			}
			if cr.Off != len(ref) {
				bad(fmt.Sprintf("stream reader (%s) consumed %d bytes, the value has %d", wb.ChunkNames[class], cr.Off, len(ref)), nil)
			}
		}
	})
	if i%997 == 0 {
		c.Sample(map[string]any{"stream": c.Stream, "index": i, "tree": w.String(), "bytes": hx(ref)})
	}
}

// C03 ------------------------------------------------------------------------

var typeChoices = []byte{rc.TBool, rc.TI8, rc.TDouble, rc.TI16, rc.TI32, rc.TI64, rc.TBinary, rc.TStruct, rc.TStruct, rc.TMap, rc.TSet, rc.TList, rc.TStruct, rc.TMap, rc.TList, 0, 1, 5, 7, 9, 16, 0xff}

func C03(c *core.Child) {
	c.Loop(func(i uint64, r *core.Rand) {
		switch c.Stream {
		case "uniform":
			b := r.Bytes(r.Intn(65))
			if r.Bool() && len(b) > 0 {
				// bias the leading bytes to type codes so structure is entered
				for k := 0; k < len(b) && k < 12; k += r.Range(1, 4) {
					b[k] = rc.AllTypes[r.Intn(len(rc.AllTypes))]
				}
			}
			t := typeChoices[r.Intn(len(typeChoices))]
			c.DumpCase(map[string]any{"type": t, "hex": hex.EncodeToString(b)})
			checkTotalCanon(c, i, r, b, t, "uniform")
		case "evil":
			w := rc.GenAny(r, rc.DefaultGen)
			b := rc.AppendEvil(nil, w, r, 1, r.Range(3, 30))
			c.DumpCase(map[string]any{"type": w.T, "hex": hex.EncodeToString(b)})
			checkTotalCanon(c, i, r, b, w.T, "evil")
		case "mutate":
			w := rc.GenAny(r, rc.DefaultGen)
			b := rc.MutateBytes(rc.Encode(w), r)
			t := w.T
			if r.Chance(1, 10) {
				t = typeChoices[r.Intn(len(typeChoices))]
			}
			c.DumpCase(map[string]any{"type": t, "hex": hex.EncodeToString(b)})
			checkTotalCanon(c, i, r, b, t, "mutate")
		case "trunc":
			o := rc.DefaultGen
			o.Budget = 60
			w := rc.GenAny(r, o)
			b := rc.Encode(w)
			if len(b) > 400 {
				b = b[:400]
			}
			for n := 0; n <= len(b); n++ {
				c.DumpCase(map[string]any{"type": w.T, "hex": hex.EncodeToString(b[:n])})
				checkTotalCanon(c, i, r, b[:n], w.T, "trunc")
			}
			c.Count("trunc_bases", 1)
		case "deep":
			depths := []int{10, 100, 1000, 3000, 10000, 100000}
			d := depths[int(i)%len(depths)]
			kind := int(i/uint64(len(depths))) % 4
			b, t := deepNest(d, kind, r)
			c.DumpCase(map[string]any{"depth": d, "kind": kind})
			c.Count(fmt.Sprintf("deep_%d", d), 1)
			checkDeep(c, i, r, b, t, d)
		}
	})
}

// deepNest builds d levels of nesting: list<list<…>>, struct{1:struct{…}},
// map<i8,map<…>> or set, optionally truncated in the middle.
func deepNest(d, kind int, r *core.Rand) ([]byte, byte) {
	var head, tailb []byte
	var t byte
	switch kind {
	case 0:
		t = rc.TList
		for k := 0; k < d; k++ {
			head = append(head, rc.TList, 0, 0, 0, 1)
		}
		head = append(head, rc.TBool, 0, 0, 0, 0)
	case 1:
		t = rc.TStruct
		for k := 0; k < d; k++ {
			head = append(head, rc.TStruct, 0, 1)
			tailb = append(tailb, 0)
		}
		head = append(head, 0)
	case 2:
		t = rc.TMap
		for k := 0; k < d; k++ {
			head = append(head, rc.TI8, rc.TMap, 0, 0, 0, 1, 7)
		}
		head = append(head, rc.TI8, rc.TI8, 0, 0, 0, 0)
	default:
		t = rc.TSet
		for k := 0; k < d; k++ {
			head = append(head, rc.TSet, 0, 0, 0, 1)
		}
		head = append(head, rc.TI64, 0, 0, 0, 0)
	}
	b := append(head, tailb...)
	if r.Chance(1, 3) {
		b = b[:r.Intn(len(b))]
	}
	return b, t
}

type outcome struct {
	ok  bool
	w   rc.W
	n   int
	err error
}

func decodeRA(b []byte, t byte, off int) (o outcome) {
	rd := binary.NewReader(bytes.NewReader(b))
	v, n, err := rd.ReadValue(wire.Type(t), int64(off))
	if err != nil {
		return outcome{err: err}
	}
	w, err := wb.FromWire(v)
	if err != nil {
		return outcome{err: err}
	}
	return outcome{ok: true, w: w, n: int(n) - off}
}

func decodeStream(b []byte, t byte, class int, seed uint64) (o outcome, harnessBudget bool) {
	cr := wb.NewChunkReader(b, class, seed)
	sr := binary.Default.Reader(cr)
	budget := 1 << 21
	w, err := wb.StreamRead(sr, t, &budget)
	sr.Close()
	if err == wb.ErrBudget {
		return outcome{err: err}, true
	}
	if err != nil {
		return outcome{err: err}, false
	}
	return outcome{ok: true, w: w, n: cr.Off}, false
}

func skipStream(b []byte, t byte, class int, seed uint64, seekable bool) (int, error) {
	if seekable {
		cr := &wb.SeekChunkReader{ChunkReader: *wb.NewChunkReader(b, class, seed)}
		sr := binary.Default.Reader(cr)
		err := sr.Skip(wire.Type(t))
		sr.Close()
		return cr.Off, err
	}
	cr := wb.NewChunkReader(b, class, seed)
	sr := binary.Default.Reader(cr)
	err := sr.Skip(wire.Type(t))
	sr.Close()
	return cr.Off, err
}

func checkTotalCanon(c *core.Child, i uint64, r *core.Rand, b []byte, t byte, src string) {
	c.Count("cases", 1)
	det := func() map[string]any {
		return map[string]any{"type": t, "hex": hx(b), "source": src}
	}
	bad := func(what string, extra map[string]any) {
		d := det()
		for k, v := range extra {
			d[k] = v
		}
		c.Violation(i, what, "", d)
	}
	guard(c, i, "C03 decode", det, func() {
		off := 0
		in := b
		if r.Chance(1, 5) {
			off = r.Range(1, 5)
			in = append(r.Bytes(off), b...)
		}
		ra := decodeRA(in, t, off)
		// thriftrw's own forcing function must come to the same conclusion as
		// forcing element by element (it releases what it walks: own decode)
		evr := binary.NewReader(bytes.NewReader(in))
		if v, _, err := evr.ReadValue(wire.Type(t), int64(off)); err == nil {
			if everr := wire.EvaluateValue(v); (everr == nil) != ra.ok {
				bad(fmt.Sprintf("wire.EvaluateValue reports %v on a decoded value whose element-by-element forcing reports %v", everr, ra.err), nil)
			}
		}
		class := r.Intn(wb.NumChunkings)
		seed := r.Uint64()
		st, hb := decodeStream(b, t, class, seed)
		if hb {
			c.Count("harness_budget", 1)
			return
		}
		c.Count("chunk_"+wb.ChunkNames[class], 1)
		canon := func(o outcome, who string) {
			if o.n > len(b) || o.n < 0 {
				bad(fmt.Sprintf("%s decode reports %d consumed bytes of a %d-byte input", who, o.n, len(b)), nil)
				return
			}
			var buf bytes.Buffer
			if err := binary.Default.Encode(wb.ToWire(o.w), &buf); err != nil {
				bad(who+" decode succeeded but re-encoding fails: "+err.Error(), map[string]any{"value": o.w.String()})
				return
			}
			if !bytes.Equal(buf.Bytes(), b[:o.n]) {
				bad(who+" decode succeeded but re-encoding does not reproduce the consumed prefix", map[string]any{"value": o.w.String(), "reencoded_hex": hx(buf.Bytes()), "consumed": o.n})
			}
			// skip from the same position, both stream kinds
			for _, seekable := range []bool{false, true} {
				n, err := skipStream(b, t, class, seed, seekable)
				if err != nil {
					bad(fmt.Sprintf("%s decode succeeded but Skip (seekable=%v) fails: %v", who, seekable, err), map[string]any{"value": o.w.String()})
				} else if n != o.n {
					bad(fmt.Sprintf("%s decode consumed %d bytes but Skip (seekable=%v) consumed %d", who, o.n, seekable, n), map[string]any{"value": o.w.String()})
				}
			}
		}
		switch {
		case ra.ok && st.ok:
			c.Count("accepted", 1)
			canon(ra, "random-access")
			if !rc.Equal(ra.w, st.w) {
				bad("random-access and stream decoders yield different values", map[string]any{"ra": ra.w.String(), "stream": st.w.String()})
			}
			if ra.n != st.n {
				bad(fmt.Sprintf("random-access consumed %d bytes, stream consumed %d", ra.n, st.n), nil)
			}
			if len(b) >= 4 && (t >= rc.TBinary) {
				c.Nontrivial(core.HashBytes([]byte{t}, b))
			}
		case ra.ok && !st.ok:
			canon(ra, "random-access")
			st2, _ := decodeStream(b[:ra.n], t, class, seed)
			if !st2.ok {
				bad("random-access decoder accepts a prefix that the stream decoder rejects even alone: "+fmt.Sprint(st2.err), map[string]any{"ra": ra.w.String(), "consumed": ra.n})
			} else {
				c.Count("trailing_sensitive", 1)
			}
		case !ra.ok && st.ok:
			canon(st, "stream")
			ra2 := decodeRA(b[:st.n], t, 0)
			if !ra2.ok {
				bad("stream decoder accepts a prefix that the random-access decoder rejects even alone: "+fmt.Sprint(ra2.err), map[string]any{"stream": st.w.String(), "consumed": st.n})
			} else {
				c.Count("trailing_sensitive", 1)
			}
		default:
			c.Count("rejected", 1)
			if ra.err == nil || st.err == nil {
				bad("decoder returned neither a value nor an error", nil)
			}
			if len(b) >= 4 {
				c.Nontrivial(core.HashBytes([]byte{t, 0xee}, b))
			}
			// Skip must still terminate without panicking (result unconstrained)
			skipStream(b, t, class, seed, false)
			skipStream(b, t, class, seed, true)
		}
		// agreement with the strict spec decoder is evidence only
		if _, _, err := rc.Decode(b, t); (err == nil) != (ra.ok) {
			c.Count("differs_from_strict_spec_decoder", 1)
		}
	})
	if i%4999 == 0 {
		c.Sample(map[string]any{"stream": c.Stream, "index": i, "type": t, "hex": hx(b)})
	}
}

// checkDeep: deep nesting; random access is quadratic in depth, so it is
// exercised up to depth 3000 only, the stream side always.
func checkDeep(c *core.Child, i uint64, r *core.Rand, b []byte, t byte, d int) {
	c.Count("cases", 1)
	det := func() map[string]any { return map[string]any{"type": t, "depth": d, "len": len(b)} }
	guard(c, i, "C03 deep", det, func() {
		st, _ := decodeStream(b, t, int(i)%wb.NumChunkings, r.Uint64())
		n, err := skipStream(b, t, wb.ChunkWhole, 1, false)
		if st.ok {
			c.Count("accepted", 1)
			c.Nontrivial(core.HashBytes([]byte{t}, b))
			if err != nil || n != st.n {
				c.Violation(i, fmt.Sprintf("deep value decoded (%d bytes) but Skip gives n=%d err=%v", st.n, n, err), "", det())
			}
			if !bytes.Equal(rc.Encode(st.w), b[:st.n]) {
				c.Violation(i, "deep value does not re-encode to the consumed prefix", "", det())
			}
		} else {
			c.Count("rejected", 1)
			c.Nontrivial(core.HashBytes([]byte{t, 0xee}, b))
		}
		if d <= 3000 {
			ra := decodeRA(b, t, 0)
			if ra.ok != st.ok {
				c.Violation(i, fmt.Sprintf("deep nesting: random-access ok=%v, stream ok=%v", ra.ok, st.ok), "", det())
			}
		}
	})
	_ = io.EOF
}
