//go:build verif

package codec

import (
	"bytes"
	"context"
	"fmt"
	"io"
	"os"
	"runtime"
	"sync"
	"sync/atomic"
	"time"

	"go.uber.org/thriftrw/plugin/api"
	tbinary "go.uber.org/thriftrw/protocol/binary"
	"go.uber.org/thriftrw/protocol/stream"
	"go.uber.org/thriftrw/verifhook"
	"go.uber.org/thriftrw/wire"
	"verif/harness/core"
	rc "verif/harness/refcodec"
	wb "verif/harness/wbridge"
)

// One concurrent operation with its baseline, computed sequentially before
// the goroutines start.
type cop struct {
	kind int
	name string
	run  func() (string, error) // returns a digest of the result
	want string
}

const (
	kEncode = iota
	kDecode
	kStreamWrite
	kStreamRead
	kEnvEncode
	kEnvDecode
	kDecodeRequest
	kReadRequest
	kGenFromWire
	kGenToWire
	kGenEncode
	kGenDecode
	kDecodeInvalid
	numKinds
)

var kindNames = []string{"Encode", "Decode+force", "StreamWrite", "StreamRead", "EncodeEnveloped", "DecodeEnveloped", "DecodeRequest", "ReadRequest", "gen.FromWire", "gen.ToWire", "gen.Encode", "gen.Decode", "Decode+force(invalid nested)"}

type wireable interface {
	ToWire() (wire.Value, error)
	Encode(stream.Writer) error
}

func makeOp(r *core.Rand, uid string) cop {
	kind := r.Intn(numKinds)
	o := cop{kind: kind, name: kindNames[kind]}
	gen := rc.GenOpts{MaxDepth: 4, MaxLen: 5, MaxBin: 40, NaN: true, Budget: 60}
	switch kind {
	case kDecodeInvalid:
		// an input whose decoding fails INSIDE a nested container (a bool byte
		// other than 0/1 in the last inner list): the error paths run next to
		// everybody else's valid operations and must not disturb them
		n := r.Range(2, 4)
		b := []byte{0x0f, 0, 0, 0, byte(n)}
		for k := 0; k < n; k++ {
			b = append(b, 0x02, 0, 0, 0, 3, 1, 0, 1)
		}
		b[len(b)-1] = byte(r.Range(2, 255))
		top := wire.TList
		if r.Bool() { // as a struct field with a field after it
			b = append(append([]byte{0x0f, 0, 1}, b...), 0x08, 0, 2, 0, 0, 0, 7, 0)
			top = wire.TStruct
		}
		viaEvaluate := r.Bool()
		o.want = "rejected"
		o.run = func() (string, error) {
			v, err := tbinary.Default.Decode(bytes.NewReader(b), top)
			if err != nil {
				return "rejected", nil
			}
			if viaEvaluate {
				err = wire.EvaluateValue(v)
			} else {
				_, err = wb.FromWire(v)
			}
			if err != nil {
				return "rejected", nil
			}
			return "accepted", nil
		}
		return o
	case kEncode, kDecode, kStreamWrite, kStreamRead:
		w := rc.Struct(rc.Field{ID: 1, V: rc.Binary([]byte(uid))}, rc.Field{ID: 2, V: rc.GenAny(r, gen)})
		ref := rc.Encode(w)
		class := r.Intn(wb.NumChunkings)
		seed := r.Uint64()
		switch kind {
		case kEncode:
			o.run = func() (string, error) {
				var buf bytes.Buffer
				err := tbinary.Default.Encode(wb.ToWire(w), &buf)
				return string(buf.Bytes()), err
			}
		case kStreamWrite:
			o.run = func() (string, error) {
				var buf bytes.Buffer
				sw := tbinary.Default.Writer(&buf)
				err := wb.StreamWrite(sw, w)
				sw.Close()
				return string(buf.Bytes()), err
			}
		case kDecode:
			o.run = func() (string, error) {
				v, err := tbinary.Default.Decode(bytes.NewReader(ref), wire.TStruct)
				if err != nil {
					return "", err
				}
				g, err := wb.FromWire(v)
				return string(rc.Encode(g)), err
			}
		case kStreamRead:
			o.run = func() (string, error) {
				sr := tbinary.Default.Reader(wb.NewChunkReader(ref, class, seed))
				budget := 1 << 20
				g, err := wb.StreamRead(sr, rc.TStruct, &budget)
				sr.Close()
				return string(rc.Encode(g)), err
			}
		}
		o.want = string(ref)
	case kEnvEncode, kEnvDecode, kDecodeRequest, kReadRequest:
		e := genEnvelope(r)
		e.Name = append([]byte(uid+"."), e.Name...)
		e.Type = rc.Call
		we := wire.Envelope{Name: string(e.Name), Type: wire.Call, SeqID: e.SeqID, Value: wb.ToWire(e.Body)}
		f := framings[r.Intn(2)]
		b := frameBytes(f, e)
		digest := func(name string, seq int32, body rc.W) string {
			return fmt.Sprintf("%x|%d|%x", name, seq, rc.Encode(body))
		}
		o.want = digest(string(e.Name), e.SeqID, e.Body)
		class := r.Intn(wb.NumChunkings)
		seed := r.Uint64()
		switch kind {
		case kEnvEncode:
			o.want = string(rc.AppendStrict(nil, e))
			o.run = func() (string, error) {
				var buf bytes.Buffer
				err := tbinary.Default.EncodeEnveloped(we, &buf)
				return string(buf.Bytes()), err
			}
		case kEnvDecode:
			o.run = func() (string, error) {
				g, err := tbinary.Default.DecodeEnveloped(bytes.NewReader(b))
				if err != nil {
					return "", err
				}
				body, err := wb.FromWire(g.Value)
				return digest(g.Name, g.SeqID, body), err
			}
		case kDecodeRequest:
			o.run = func() (string, error) {
				v, resp, err := tbinary.Default.DecodeRequest(wire.Call, bytes.NewReader(b))
				if err != nil {
					return "", err
				}
				body, err := wb.FromWire(v)
				_, name, seq := responderKind(resp)
				return digest(name, seq, body), err
			}
		case kReadRequest:
			mask := uint16(r.Intn(4))
			o.want = digest(string(e.Name), e.SeqID, (&bodyReader{skipMask: mask}).kept(e.Body))
			o.run = func() (string, error) {
				br := &bodyReader{skipMask: mask}
				rw, err := tbinary.Default.ReadRequest(context.Background(), wire.Call, wb.NewChunkReader(b, class, seed), br)
				if err != nil {
					return "", err
				}
				_, name, seq := responderKind(rw)
				return digest(name, seq, br.w), nil
			}
		}
	default:
		ats := apiTypesTagged(uid)
		at := ats[r.Intn(len(ats))]
		// the input carries an unknown field the generated code has to skip; the
		// re-encoding of what was read is the base value without it
		o.want = string(rc.Encode(at.base))
		withUnknown := at.base
		withUnknown.Fields = append([]rc.Field{{ID: 99, V: rc.GenAny(r, gen)}}, at.base.Fields...)
		withUnknown.Fields = append(withUnknown.Fields, rc.Field{ID: -7, V: rc.I64(int64(r.Uint64()))})
		ref := rc.Encode(withUnknown)
		o.name += "(" + at.name + ")"
		load := func() (decodable, error) {
			v, err := tbinary.Default.Decode(bytes.NewReader(ref), wire.TStruct)
			if err != nil {
				return nil, err
			}
			x := at.mk()
			return x, x.FromWire(v)
		}
		reenc := func(x decodable) (string, error) {
			v, err := x.(wireable).ToWire()
			if err != nil {
				return "", err
			}
			var buf bytes.Buffer
			err = tbinary.Default.Encode(v, &buf)
			return string(buf.Bytes()), err
		}
		switch kind {
		case kGenFromWire, kGenToWire:
			o.run = func() (string, error) {
				x, err := load()
				if err != nil {
					return "", err
				}
				return reenc(x)
			}
		case kGenEncode:
			o.run = func() (string, error) {
				x, err := load()
				if err != nil {
					return "", err
				}
				var buf bytes.Buffer
				sw := tbinary.Default.Writer(&buf)
				err = x.(wireable).Encode(sw)
				sw.Close()
				return string(buf.Bytes()), err
			}
		case kGenDecode:
			class := r.Intn(wb.NumChunkings)
			seed := r.Uint64()
			o.run = func() (string, error) {
				x := at.mk()
				sr := tbinary.Default.Reader(wb.NewChunkReader(ref, class, seed))
				err := x.Decode(sr)
				sr.Close()
				if err != nil {
					return "", err
				}
				return reenc(x)
			}
		}
	}
	return o
}

var _ = api.APIVersion

// C18 child: one case = one round.
func C18(c *core.Child) {
	c.Loop(func(i uint64, r *core.Rand) {
		switch c.Stream {
		case "codec":
			c18Codec(c, i, r)
		case "frame":
			c18Frame(c, i, r)
		case "fanout":
			c18Fanout(c, i, r)
		}
	})
	news := tbinary.VerifPoolNews()
	for k, n := range news {
		c.Count([]string{"pool_new_Writer", "pool_new_StreamWriter", "pool_new_StreamReader", "pool_new_lazyValueList", "pool_new_lazyMapItemList"}[k], n)
	}
}

func c18Codec(c *core.Child, i uint64, r *core.Rand) {
	K := []int{2, 8, 64}[r.Intn(3)]
	procs := []int{1, 2, 16}[r.Intn(3)]
	old := runtime.GOMAXPROCS(procs)
	defer runtime.GOMAXPROCS(old)
	per := 6
	ops := make([][]cop, K)
	for g := 0; g < K; g++ {
		for j := 0; j < per; j++ {
			o := makeOp(r, fmt.Sprintf("u%d.%d.%d", i, g, j))
			// sequential baseline for this very operation
			got, err := o.run()
			if err != nil || got != o.want {
				c.Violation(i, fmt.Sprintf("operation %s run ALONE does not give the reference result (err=%v)", o.name, err), "", map[string]any{"op": o.name})
				return
			}
			ops[g] = append(ops[g], o)
		}
	}
	c.Count("rounds", 1)
	c.Count(fmt.Sprintf("grid_K%d_P%d", K, procs), 1)
	var inflight [numKinds]int32
	var pairs [numKinds][numKinds]int32
	var overlaps int64
	var wg sync.WaitGroup
	stop := make(chan struct{})
	go func() { // pool churn
		for {
			select {
			case <-stop:
				return
			default:
				runtime.GC()
				time.Sleep(3 * time.Millisecond)
			}
		}
	}()
	type fail struct {
		op  string
		err error
	}
	fails := make(chan fail, K*per)
	yields := r.Fork()
	ybits := make([]uint64, K)
	for g := range ybits {
		ybits[g] = yields.Uint64()
	}
	start := make(chan struct{})
	for g := 0; g < K; g++ {
		wg.Add(1)
		go func(g int) {
			defer wg.Done()
			<-start
			for rep := 0; rep < 3; rep++ {
				for j, o := range ops[g] {
					if ybits[g]>>(uint(j+rep*7)%64)&1 == 1 {
						runtime.Gosched()
					}
					for k := 0; k < numKinds; k++ {
						if atomic.LoadInt32(&inflight[k]) > 0 {
							atomic.AddInt64(&overlaps, 1)
							atomic.StoreInt32(&pairs[k][o.kind], 1)
						}
					}
					atomic.AddInt32(&inflight[o.kind], 1)
					got, err := func() (s string, err error) {
						defer func() {
							if p := recover(); p != nil {
								err = fmt.Errorf("panic: %v", p)
							}
						}()
						return o.run()
					}()
					atomic.AddInt32(&inflight[o.kind], -1)
					if err != nil || got != o.want {
						fails <- fail{o.name, err}
					}
				}
			}
		}(g)
	}
	close(start)
	wg.Wait()
	close(stop)
	close(fails)
	for f := range fails {
		c.Violation(i, fmt.Sprintf("operation %s gives a different result under concurrency than alone (err=%v)", f.op, f.err), "", map[string]any{"K": K, "GOMAXPROCS": procs})
	}
	c.Count("ops", int64(K*per*3))
	// operations that borrow exactly one pooled Writer per run (baseline run + 3 concurrent runs)
	for g := range ops {
		for _, o := range ops[g] {
			switch o.kind {
			case kEncode, kEnvEncode, kGenFromWire, kGenToWire, kGenDecode:
				c.Count("writer_borrows", 4)
			}
		}
	}
	c.Count("cases", int64(K*per*3))
	c.Count("overlapping_pairs", overlaps)
	np := 0
	for a := 0; a < numKinds; a++ {
		for b := 0; b < numKinds; b++ {
			if pairs[a][b] != 0 {
				np++
				c.Nontrivial(core.HashBytes([]byte{0x18, byte(a), byte(b), byte(K), byte(procs)}))
			}
		}
	}
	c.Count("kind_pairs_overlapping_sum", int64(np))
	if i%50 == 0 {
		c.Sample(map[string]any{"stream": "codec", "round": i, "K": K, "GOMAXPROCS": procs, "ops": K * per * 3, "overlapping_observations": overlaps, "distinct_kind_pairs": np})
	}
}

// ---- frame client -----------------------------------------------------------------

type delayWriter struct {
	w io.Writer
	r *core.Rand
	m sync.Mutex
}

func (d *delayWriter) Write(p []byte) (int, error) {
	d.m.Lock()
	k := d.r.Intn(8)
	d.m.Unlock()
	switch k {
	case 0:
		time.Sleep(50 * time.Microsecond)
	case 1, 2:
		runtime.Gosched()
	}
	return d.w.Write(p)
}

type echoHandler struct {
	mu   sync.Mutex
	seen map[string]int
}

func (h *echoHandler) Handle(b []byte) ([]byte, error) {
	h.mu.Lock()
	h.seen[string(b)]++
	h.mu.Unlock()
	return append([]byte("R:"), b...), nil
}

func c18Frame(c *core.Child, i uint64, r *core.Rand) {
	K := []int{2, 8, 32}[r.Intn(3)]
	procs := []int{1, 2, 16}[r.Intn(3)]
	old := runtime.GOMAXPROCS(procs)
	defer runtime.GOMAXPROCS(old)
	useOS := r.Bool()
	var cr, sr io.Reader
	var cw, sw io.Writer
	var closers []io.Closer
	if useOS {
		// kernel pipes buffer: the server can consume request n+1 before
		// response n has been read
		r1, w1, err := os.Pipe()
		r2, w2, err2 := os.Pipe()
		if err != nil || err2 != nil {
			c.Inconclusive("os.Pipe failed")
			return
		}
		sr, cw, cr, sw = r1, w1, r2, w2
		closers = []io.Closer{r1, w1, r2, w2}
	} else {
		r1, w1 := io.Pipe()
		r2, w2 := io.Pipe()
		sr, cw, cr, sw = r1, w1, r2, w2
		closers = []io.Closer{r1, w1, r2, w2}
	}
	h := &echoHandler{seen: map[string]int{}}
	srv := verifhook.NewFrameServer(sr, &delayWriter{w: sw, r: r.Fork()})
	done := make(chan error, 1)
	go func() { done <- srv.Serve(h) }()
	cl := verifhook.NewFrameClient(&delayWriter{w: cw, r: r.Fork()}, cr)
	per := 8
	var wg sync.WaitGroup
	var bad int64
	msgs := make(chan string, K*per)
	start := make(chan struct{})
	for g := 0; g < K; g++ {
		wg.Add(1)
		sizes := make([]int, per)
		for j := range sizes {
			sizes[j] = r.Intn(200)
			if r.Chance(1, 10) {
				sizes[j] = 0
			}
		}
		go func(g int) {
			defer wg.Done()
			<-start
			for j := 0; j < per; j++ {
				p := []byte(fmt.Sprintf("m%d.%d.%d|", i, g, j))
				p = append(p, bytes.Repeat([]byte{byte(g)}, sizes[j])...)
				res, err := cl.Send(p)
				if err != nil || string(res) != "R:"+string(p) {
					atomic.AddInt64(&bad, 1)
					msgs <- fmt.Sprintf("Send(%q) returned %q, err=%v", trunc(p), trunc(res), err)
				}
			}
		}(g)
	}
	close(start)
	wg.Wait()
	close(msgs)
	for m := range msgs {
		c.Violation(i, "frame client: a concurrent Send did not receive the reply to its own request: "+m, "", map[string]any{"K": K, "GOMAXPROCS": procs, "os_pipe": useOS})
	}
	srv.Stop()
	for _, cl := range closers {
		cl.Close()
	}
	select {
	case <-done:
	case <-time.After(20 * time.Second):
		c.Inconclusive("frame server did not stop within 20s after its pipes were closed")
	}
	h.mu.Lock()
	if len(h.seen) != K*per {
		c.Violation(i, fmt.Sprintf("frame server saw %d distinct frames, %d were sent", len(h.seen), K*per), "", map[string]any{"K": K})
	}
	for k, n := range h.seen {
		if n != 1 {
			c.Violation(i, fmt.Sprintf("frame %q was delivered %d times", trunc([]byte(k)), n), "", nil)
		}
	}
	h.mu.Unlock()
	c.Count("frame_rounds", 1)
	c.Count("frame_sends", int64(K*per))
	c.Count("cases", int64(K*per))
	if useOS {
		c.Count("frame_rounds_os_pipe", 1)
	}
	c.Nontrivial(core.HashBytes([]byte{0x19, byte(K), byte(procs)}, []byte(fmt.Sprint(i))))
}

func trunc(b []byte) string {
	if len(b) > 40 {
		return string(b[:40]) + "…"
	}
	return string(b)
}

// ---- plugin fan-out ---------------------------------------------------------------

type fakeGen struct {
	name    string
	files   map[string][]byte
	barrier *sync.WaitGroup
	delay   time.Duration
	fail    error
}

func (f *fakeGen) Generate(*api.GenerateServiceRequest) (*api.GenerateServiceResponse, error) {
	if f.delay > 0 {
		time.Sleep(f.delay)
	}
	if f.barrier != nil {
		f.barrier.Done()
		f.barrier.Wait() // all generators answer at the same instant
	}
	if f.fail != nil {
		return nil, f.fail
	}
	return &api.GenerateServiceResponse{Files: f.files}, nil
}
func (f *fakeGen) Handle() verifhook.PluginHandle { return fakeHandle{f} }

type fakeHandle struct{ g *fakeGen }

func (h fakeHandle) Close() error                                       { return nil }
func (h fakeHandle) Name() string                                       { return h.g.name }
func (h fakeHandle) ServiceGenerator() verifhook.PluginServiceGenerator { return h.g }

func c18Fanout(c *core.Child, i uint64, r *core.Rand) {
	n := r.Range(2, 8)
	procs := []int{1, 2, 16}[r.Intn(3)]
	old := runtime.GOMAXPROCS(procs)
	defer runtime.GOMAXPROCS(old)
	conflicts := 0
	if r.Bool() {
		conflicts = r.Range(1, n-1)
	}
	var barrier *sync.WaitGroup
	if r.Chance(2, 3) {
		barrier = &sync.WaitGroup{}
		barrier.Add(n)
	}
	big := r.Chance(1, 3)
	var msg verifhook.MultiServiceGenerator
	want := map[string]string{}
	for g := 0; g < n; g++ {
		fg := &fakeGen{name: fmt.Sprintf("p%d", g), files: map[string][]byte{}, barrier: barrier}
		if barrier == nil {
			fg.delay = time.Duration(r.Intn(300)) * time.Microsecond
		}
		nfiles := r.Range(1, 5)
		if big {
			nfiles = r.Range(120, 260) // merging takes long enough for another generator to get in between
		}
		for k := 0; k < nfiles; k++ {
			p := fmt.Sprintf("dir%d/f%d_%d.go", g%3, g, k)
			fg.files[p] = []byte(fmt.Sprintf("%d/%d/%d", i, g, k))
			want[p] = string(fg.files[p])
		}
		if g > 0 && g <= conflicts {
			// planted conflict with generator 0
			fg.files["shared/clash.go"] = []byte(fmt.Sprintf("clash %d", g))
		}
		if g == 0 && conflicts > 0 {
			fg.files["shared/clash.go"] = []byte("clash 0")
		}
		msg = append(msg, fg)
	}
	res, err := msg.Generate(&api.GenerateServiceRequest{})
	c.Count("fanout_rounds", 1)
	c.Count("cases", 1)
	c.Nontrivial(core.HashBytes([]byte{0x1a, byte(n), byte(conflicts), byte(procs)}, []byte(fmt.Sprint(i))))
	det := map[string]any{"generators": n, "planted_conflicts": conflicts, "GOMAXPROCS": procs, "barrier": barrier != nil, "files_per_generator_over_100": big}
	if big {
		c.Count("fanout_rounds_with_large_outputs", 1)
	}
	if conflicts > 0 {
		c.Count("fanout_conflict_rounds", 1)
		if err == nil {
			c.Violation(i, fmt.Sprintf("plugin fan-out: %d generators emitted the same path and no conflict was reported", conflicts+1), "", det)
		} else {
			// every additional writer of the shared path is one conflict
			got := bytes.Count([]byte(err.Error()), []byte("plugin conflict"))
			if got != conflicts {
				det["error"] = err.Error()
				c.Violation(i, fmt.Sprintf("plugin fan-out: %d conflicting writers planted but %d conflicts reported", conflicts, got), "", det)
			}
		}
		return
	}
	if err != nil {
		c.Violation(i, "plugin fan-out failed without any conflict: "+err.Error(), "", det)
		return
	}
	if len(res.Files) != len(want) {
		c.Violation(i, fmt.Sprintf("plugin fan-out merged %d files, generators produced %d", len(res.Files), len(want)), "", det)
	}
	for p, w := range want {
		if string(res.Files[p]) != w {
			c.Violation(i, fmt.Sprintf("plugin fan-out lost or altered file %s", p), "", det)
		}
	}
}
