//go:build verif

package codec

import (
	"encoding/binary"
	"fmt"
	"io"
	"time"

	"go.uber.org/thriftrw/plugin"
	"go.uber.org/thriftrw/plugin/api"
	"verif/harness/core"
	rc "verif/harness/refcodec"
)

type libGen struct{ calls int }

func (g *libGen) Generate(req *api.GenerateServiceRequest) (*api.GenerateServiceResponse, error) {
	g.calls++
	files := map[string][]byte{}
	for _, id := range req.RootServices {
		files[fmt.Sprintf("svc_%d.go", id)] = []byte(req.PackagePrefix)
	}
	return &api.GenerateServiceResponse{Files: files}, nil
}

// C16Lib: a conforming plugin built with the plugin library answers
// handshake, generate and goodbye, and stops after goodbye.
func C16Lib(c *core.Child) {
	ver := int32(c.ArgInt("apiversion", 0))
	c.Loop(func(i uint64, r *core.Rand) {
		c.Count("cases", 1)
		c.Count("lib_sessions", 1)
		name := fmt.Sprintf("plug%d", i)
		withGen := r.Chance(3, 4)
		pr1, pw1 := io.Pipe()
		pr2, pw2 := io.Pipe()
		p := &plugin.Plugin{Name: name, Reader: pr1, Writer: pw2}
		g := &libGen{}
		if withGen {
			p.ServiceGenerator = g
		}
		done := make(chan struct{})
		go func() {
			defer close(done)
			plugin.Main(p)
		}()
		bad := func(what string) {
			c.Violation(i, "plugin.Main: "+what, "", map[string]any{"name": name, "with_generator": withGen})
		}
		send := func(method string, body rc.W, seq int32) (rc.Envelope, bool) {
			msg := rc.Frame(rc.AppendStrict(nil, rc.Envelope{Name: []byte(method), Type: rc.Call, SeqID: seq, Body: body}))
			go func() {
				if r.Chance(1, 3) {
					for k := range msg {
						pw1.Write(msg[k : k+1])
					}
				} else {
					pw1.Write(msg)
				}
			}()
			var lb [4]byte
			type res struct {
				e  rc.Envelope
				ok bool
			}
			ch := make(chan res, 1)
			go func() {
				if _, err := io.ReadFull(pr2, lb[:]); err != nil {
					ch <- res{}
					return
				}
				buf := make([]byte, binary.BigEndian.Uint32(lb[:]))
				if _, err := io.ReadFull(pr2, buf); err != nil {
					ch <- res{}
					return
				}
				f, e, n, err := rc.DecodeMessage(buf)
				ch <- res{e, err == nil && n == len(buf) && f == rc.FrameStrict}
			}()
			select {
			case x := <-ch:
				return x.e, x.ok
			case <-time.After(20 * time.Second):
				return rc.Envelope{}, false
			}
		}
		field := func(w rc.W, id int16) (rc.W, bool) {
			for _, f := range w.Fields {
				if f.ID == id {
					return f.V, true
				}
			}
			return rc.W{}, false
		}
		seq := int32(r.Uint64())
		// handshake
		e, ok := send("Plugin:handshake", rc.Struct(rc.Field{ID: 1, V: rc.Struct()}), seq)
		if !ok || e.Type != rc.Reply || e.SeqID != seq || string(e.Name) != "Plugin:handshake" {
			bad(fmt.Sprintf("handshake not answered with a Reply envelope echoing name and seqid (ok=%v type=%d)", ok, e.Type))
			return
		}
		resp, _ := field(e.Body, 0)
		nm, _ := field(resp, 1)
		av, _ := field(resp, 2)
		ft, _ := field(resp, 3)
		if string(nm.B) != name || int32(av.I) != ver {
			bad(fmt.Sprintf("handshake response carries name %q / api version %d, want %q / %d", nm.B, av.I, name, ver))
		}
		hasFeature := false
		for _, f := range ft.Items {
			if f.I == 1 {
				hasFeature = true
			}
		}
		if hasFeature != withGen {
			bad(fmt.Sprintf("service-generator feature advertised=%v but a generator is configured=%v", hasFeature, withGen))
		}
		// generate
		ngen := r.Intn(3)
		for k := 0; k < ngen; k++ {
			ids := []rc.W{rc.I32(int32(k + 1)), rc.I32(int32(100 + k))}
			req := rc.Struct(rc.Field{ID: 1, V: rc.List(rc.TI32, ids...)}, rc.Field{ID: 2, V: rc.Map(rc.TI32, rc.TStruct)}, rc.Field{ID: 3, V: rc.Map(rc.TI32, rc.TStruct)},
				rc.Field{ID: 4, V: rc.Binary([]byte(fmt.Sprintf("prefix/%d", i)))}, rc.Field{ID: 5, V: rc.Binary([]byte("/root"))})
			e, ok := send("ServiceGenerator:generate", rc.Struct(rc.Field{ID: 1, V: req}), seq+int32(k)+1)
			if !ok {
				bad("generate request not answered with a well-formed envelope")
				return
			}
			if !withGen {
				if e.Type != rc.Exception {
					bad("generate answered although no service generator is configured")
				}
				continue
			}
			body, _ := field(e.Body, 0)
			files, _ := field(body, 1)
			if e.Type != rc.Reply || files.Count() != 2 {
				bad(fmt.Sprintf("generate reply type=%d with %d files, want Reply with 2 files", e.Type, files.Count()))
			}
			for x := 0; x+1 < len(files.Items); x += 2 {
				if string(files.Items[x+1].B) != fmt.Sprintf("prefix/%d", i) {
					bad("generate response does not carry the generator's file contents")
				}
			}
		}
		if withGen && g.calls != ngen {
			bad(fmt.Sprintf("generator invoked %d times for %d requests", g.calls, ngen))
		}
		// goodbye
		e, ok = send("Plugin:goodbye", rc.Struct(), seq+9)
		if !ok || e.Type != rc.Reply {
			bad("goodbye not answered with a Reply envelope")
		}
		select {
		case <-done:
		case <-time.After(20 * time.Second):
			bad("plugin.Main keeps serving after goodbye")
		}
		pw1.Close()
		pr2.Close()
		c.Nontrivial(core.HashBytes([]byte(name), []byte{byte(ngen)}))
	})
}
