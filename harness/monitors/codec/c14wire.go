//go:build verif

package codec

import (
	"fmt"
	"math"

	"go.uber.org/thriftrw/wire"
	"verif/harness/core"
	rc "verif/harness/refcodec"
	wb "verif/harness/wbridge"
)

// dedupe removes duplicate set elements and map keys (by Thrift equality) at
// every level: the precondition of C14.
func dedupe(w rc.W) rc.W {
	out := w
	switch w.T {
	case rc.TStruct:
		out.Fields = make([]rc.Field, len(w.Fields))
		for i, f := range w.Fields {
			out.Fields[i] = rc.Field{ID: f.ID, V: dedupe(f.V)}
		}
	case rc.TList:
		out.Items = make([]rc.W, len(w.Items))
		for i, it := range w.Items {
			out.Items[i] = dedupe(it)
		}
	case rc.TSet:
		seen := map[string]bool{}
		out.Items = nil
		for _, it := range w.Items {
			d := dedupe(it)
			k := rc.CanonKey(d)
			if !seen[k] {
				seen[k] = true
				out.Items = append(out.Items, d)
			}
		}
	case rc.TMap:
		seen := map[string]bool{}
		out.Items = nil
		for i := 0; i+1 < len(w.Items); i += 2 {
			k := dedupe(w.Items[i])
			ks := rc.CanonKey(k)
			if !seen[ks] {
				seen[ks] = true
				out.Items = append(out.Items, k, dedupe(w.Items[i+1]))
			}
		}
	}
	return out
}

// shuffleUnordered permutes set elements and map entries at every level.
func shuffleUnordered(w rc.W, r *core.Rand) rc.W {
	out := w
	switch w.T {
	case rc.TStruct:
		out.Fields = make([]rc.Field, len(w.Fields))
		for i, k := range r.Perm(len(w.Fields)) {
			out.Fields[i] = rc.Field{ID: w.Fields[k].ID, V: shuffleUnordered(w.Fields[k].V, r)}
		}
	case rc.TList:
		out.Items = make([]rc.W, len(w.Items))
		for i, it := range w.Items {
			out.Items[i] = shuffleUnordered(it, r)
		}
	case rc.TSet:
		out.Items = make([]rc.W, len(w.Items))
		for i, k := range r.Perm(len(w.Items)) {
			out.Items[i] = shuffleUnordered(w.Items[k], r)
		}
	case rc.TMap:
		n := len(w.Items) / 2
		out.Items = make([]rc.W, 0, len(w.Items))
		for _, k := range r.Perm(n) {
			out.Items = append(out.Items, shuffleUnordered(w.Items[2*k], r), shuffleUnordered(w.Items[2*k+1], r))
		}
	}
	return out
}

// mutateLeaf changes one leaf somewhere (or returns false).
func mutateLeaf(w *rc.W, r *core.Rand) bool {
	switch w.T {
	case rc.TBool:
		w.I ^= 1
		return true
	case rc.TI8, rc.TI16, rc.TI32, rc.TI64:
		w.I ^= 1
		return true
	case rc.TDouble:
		if w.F<<1 == 0 {
			w.F ^= 1 << 63 // +0 <-> -0: still equal
			return true
		}
		f := math.Float64frombits(w.F)
		if math.IsInf(f, 0) {
			w.F = math.Float64bits(1.5)
		} else {
			w.F = math.Float64bits(f*2 + 1) // a different finite number (or an infinity), never NaN
		}
		return true
	case rc.TBinary:
		w.B = append(append([]byte{}, w.B...), 'x')
		return true
	case rc.TStruct:
		if len(w.Fields) == 0 {
			return false
		}
		fs := append([]rc.Field{}, w.Fields...)
		k := r.Intn(len(fs))
		if r.Chance(1, 4) {
			w.Fields = append(fs[:k], fs[k+1:]...)
			return true
		}
		v := fs[k].V
		ok := mutateLeaf(&v, r)
		fs[k].V = v
		w.Fields = fs
		return ok
	case rc.TList, rc.TSet:
		if len(w.Items) == 0 {
			return false
		}
		its := append([]rc.W{}, w.Items...)
		if w.T == rc.TList && len(its) >= 2 && r.Chance(1, 3) {
			its[0], its[len(its)-1] = its[len(its)-1], its[0]
			w.Items = its
			return true
		}
		k := r.Intn(len(its))
		ok := mutateLeaf(&its[k], r)
		w.Items = its
		return ok
	case rc.TMap:
		if len(w.Items) < 2 {
			return false
		}
		its := append([]rc.W{}, w.Items...)
		// a value, or (half of the time) a key: then one key of each side is missing from the other
		k := r.Intn(len(its)/2)*2 + 1
		if r.Bool() {
			k--
		}
		ok := mutateLeaf(&its[k], r)
		w.Items = its
		return ok
	}
	return false
}

// C14Wire: wire.ValuesAreEqual against an independent structural comparison
// of arbitrary wire values.
func C14Wire(c *core.Child) {
	o := rc.GenOpts{MaxDepth: 4, MaxLen: 4, MaxBin: 8, NaN: false, Budget: 80}
	c.Loop(func(i uint64, r *core.Rand) {
		a := dedupe(rc.GenAny(r, o))
		b := shuffleUnordered(a, r)
		mutated := false
		if r.Bool() {
			mutated = mutateLeaf(&b, r)
			b = dedupe(b)
		}
		want := rc.CanonKey(a) == rc.CanonKey(b)
		c.Count("cases", 1)
		if mutated {
			c.Count("mutated_pairs", 1)
		}
		c.DumpCase(map[string]any{"a": a.String(), "b": b.String()})
		det := map[string]any{"a": a.String(), "b": b.String(), "independent_comparison": want}
		guard(c, i, "C14 wire equality", func() map[string]any { return det }, func() {
			wa, wb2 := wb.ToWire(a), wb.ToWire(b)
			r1 := wire.ValuesAreEqual(wa, wb2)
			r2 := wire.ValuesAreEqual(wb2, wa)
			r3 := wire.ValuesAreEqual(wa, wb2)
			self := wire.ValuesAreEqual(wb2, wb2) && wire.ValuesAreEqual(wa, wa)
			if r1 != want {
				c.Violation(i, fmt.Sprintf("wire.ValuesAreEqual = %v, independent structural comparison = %v", r1, want), "", det)
			}
			if r1 != r2 || r1 != r3 || !self {
				c.Violation(i, fmt.Sprintf("wire equality is not a stable symmetric relation: a=b %v, b=a %v, a=b again %v, reflexive %v", r1, r2, r3, self), "", det)
			}
		})
		c.Nontrivial(core.HashBytes([]byte(a.String()), []byte(b.String())))
	})
}
