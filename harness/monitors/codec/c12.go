//go:build verif

package codec

import (
	"bytes"
	"context"
	"encoding/hex"
	"fmt"
	"io"

	"go.uber.org/thriftrw/protocol"
	"go.uber.org/thriftrw/protocol/binary"
	"go.uber.org/thriftrw/protocol/stream"
	"go.uber.org/thriftrw/verifhook"
	"go.uber.org/thriftrw/wire"
	"verif/harness/core"
	rc "verif/harness/refcodec"
	wb "verif/harness/wbridge"
)

// bodyReader reads a struct body generically. Fields whose id is selected by
// skipMask are passed over with Skip, the way generated code treats unknown
// fields; kept() gives the body the reader is then expected to report.
type bodyReader struct {
	w        rc.W
	budget   int
	called   int
	skipMask uint16
}

func (b *bodyReader) skips(id int16) bool {
	return b.skipMask != 0 && (uint16(id)*40503>>13)&b.skipMask != 0
}

func (b *bodyReader) kept(body rc.W) rc.W {
	out := rc.W{T: rc.TStruct}
	for _, f := range body.Fields {
		if !b.skips(f.ID) {
			out.Fields = append(out.Fields, f)
		}
	}
	return out
}

func (b *bodyReader) Decode(sr stream.Reader) error {
	b.called++
	b.budget = 1 << 21
	w := rc.W{T: rc.TStruct}
	b.w = w
	if err := sr.ReadStructBegin(); err != nil {
		return err
	}
	for {
		fh, ok, err := sr.ReadFieldBegin()
		if err != nil {
			return err
		}
		if !ok {
			break
		}
		if b.skips(fh.ID) {
			if err := sr.Skip(fh.Type); err != nil {
				return err
			}
		} else {
			v, err := wb.StreamRead(sr, byte(fh.Type), &b.budget)
			if err != nil {
				return err
			}
			w.Fields = append(w.Fields, rc.Field{ID: fh.ID, V: v})
		}
		if err := sr.ReadFieldEnd(); err != nil {
			return err
		}
	}
	b.w = w
	return sr.ReadStructEnd()
}

type enveloper struct {
	name string
	t    wire.EnvelopeType
	w    rc.W
}

func (e enveloper) MethodName() string              { return e.name }
func (e enveloper) EnvelopeType() wire.EnvelopeType { return e.t }
func (e enveloper) Encode(sw stream.Writer) error   { return wb.StreamWrite(sw, e.w) }

func genEnvelope(r *core.Rand) rc.Envelope {
	var n int
	switch r.Intn(12) {
	case 0:
		n = []int{255, 256, 257, 65535, 65536, 1, 2}[r.Intn(7)]
	default:
		n = r.Range(1, 24)
	}
	name := r.Bytes(n)
	switch r.Intn(4) {
	case 0: // printable with a multiplexing colon
		for i := range name {
			name[i] = "abcXYZ_:09"[int(name[i])%10]
		}
	case 1: // ascii
		for i := range name {
			name[i] = 'a' + name[i]%26
		}
	}
	var t int8
	switch r.Intn(3) {
	case 0:
		t = int8(r.Intn(128))
	default:
		t = int8(r.Range(1, 4))
	}
	var seq int32
	switch r.Intn(3) {
	case 0:
		seq = []int32{0, 1, -1, 2147483647, -2147483648, 65536, 255, 256}[r.Intn(8)]
	default:
		seq = int32(r.Uint64())
	}
	o := rc.DefaultGen
	o.Budget = 80
	return rc.Envelope{Name: name, Type: t, SeqID: seq, Body: rc.Gen(r, rc.TStruct, o)}
}

func responderKind(x interface{}) (kind string, name string, seq int32) {
	switch r := x.(type) {
	case *binary.EnvelopeV1Responder:
		return rc.FrameStrict, r.Name, r.SeqID
	case binary.EnvelopeV1Responder:
		return rc.FrameStrict, r.Name, r.SeqID
	case *binary.EnvelopeV0Responder:
		return rc.FrameLegacy, r.Name, r.SeqID
	case binary.EnvelopeV0Responder:
		return rc.FrameLegacy, r.Name, r.SeqID
	}
	if x == interface{}(binary.NoEnvelopeResponder) {
		return rc.FrameBare, "", 0
	}
	return fmt.Sprintf("unknown responder %T", x), "", 0
}

func frameBytes(f string, e rc.Envelope) []byte {
	switch f {
	case rc.FrameStrict:
		return rc.AppendStrict(nil, e)
	case rc.FrameLegacy:
		return rc.AppendLegacy(nil, e)
	}
	return rc.Encode(e.Body)
}

var framings = []string{rc.FrameStrict, rc.FrameLegacy, rc.FrameBare}

// C12 child.
func C12(c *core.Child) {
	c.Loop(func(i uint64, r *core.Rand) {
		switch c.Stream {
		case "rt":
			e := genEnvelope(r)
			c.DumpCase(map[string]any{"name": hex.EncodeToString(e.Name), "type": e.Type, "seq": e.SeqID, "body": e.Body.String()})
			c12RoundTrip(c, i, r, e)
		case "rpc":
			c12RPC(c, i, r)
		case "classify":
			e := genEnvelope(r)
			b := frameBytes(framings[r.Intn(3)], e)
			switch r.Intn(4) {
			case 0:
				b = r.Bytes(r.Intn(40))
			case 1:
			default:
				b = rc.MutateBytes(b, r)
			}
			c.DumpCase(map[string]any{"hex": hex.EncodeToString(b)})
			c12Classify(c, i, r, b, wire.EnvelopeType(e.Type))
		}
	})
}

func c12RoundTrip(c *core.Child, i uint64, r *core.Rand, e rc.Envelope) {
	c.Count("cases", 1)
	det := func() map[string]any {
		return map[string]any{"name_hex": hx(e.Name), "type": e.Type, "seqid": e.SeqID, "body": e.Body.String()}
	}
	bad := func(what string, extra map[string]any) {
		d := det()
		for k, v := range extra {
			d[k] = v
		}
		c.Violation(i, what, "", d)
	}
	c.Nontrivial(core.HashBytes(rc.AppendStrict(nil, e)))
	we := wire.Envelope{Name: string(e.Name), Type: wire.EnvelopeType(e.Type), SeqID: e.SeqID, Value: wb.ToWire(e.Body)}
	guard(c, i, "C12 round trip", det, func() {
		strict := rc.AppendStrict(nil, e)
		legacy := rc.AppendLegacy(nil, e)
		// --- encoders
		var buf bytes.Buffer
		if err := binary.Default.EncodeEnveloped(we, &buf); err != nil || !bytes.Equal(buf.Bytes(), strict) {
			bad(fmt.Sprintf("EncodeEnveloped differs from the spec versioned envelope (err=%v)", err), map[string]any{"got_hex": hx(buf.Bytes()), "want_hex": hx(strict)})
		}
		buf.Reset()
		bw := binary.BorrowWriter(&buf)
		err := bw.WriteLegacyEnveloped(we)
		binary.ReturnWriter(bw)
		if err != nil || !bytes.Equal(buf.Bytes(), legacy) {
			bad(fmt.Sprintf("WriteLegacyEnveloped differs from the spec legacy envelope (err=%v)", err), map[string]any{"got_hex": hx(buf.Bytes()), "want_hex": hx(legacy)})
		}
		buf.Reset()
		sw := binary.NewStreamWriter(&buf)
		eh := stream.EnvelopeHeader{Name: string(e.Name), Type: wire.EnvelopeType(e.Type), SeqID: e.SeqID}
		err = sw.WriteEnvelopeBegin(eh)
		if err == nil {
			err = wb.StreamWrite(sw, e.Body)
		}
		if err == nil {
			err = sw.WriteEnvelopeEnd()
		}
		sw.Close()
		if err != nil || !bytes.Equal(buf.Bytes(), strict) {
			bad(fmt.Sprintf("stream WriteEnvelopeBegin/End differs from the spec versioned envelope (err=%v)", err), map[string]any{"got_hex": hx(buf.Bytes())})
		}
		buf.Reset()
		sw = binary.NewStreamWriter(&buf)
		err = sw.WriteLegacyEnvelopeBegin(eh)
		if err == nil {
			err = wb.StreamWrite(sw, e.Body)
		}
		if err == nil {
			err = sw.WriteLegacyEnvelopeEnd()
		}
		sw.Close()
		if err != nil || !bytes.Equal(buf.Bytes(), legacy) {
			bad(fmt.Sprintf("stream WriteLegacyEnvelopeBegin/End differs from the spec legacy envelope (err=%v)", err), map[string]any{"got_hex": hx(buf.Bytes())})
		}
		// --- envelope decoders
		for _, f := range framings[:2] {
			b := frameBytes(f, e)
			got, err := binary.Default.DecodeEnveloped(bytes.NewReader(b))
			if err != nil {
				bad(fmt.Sprintf("DecodeEnveloped rejects a spec %s envelope: %v", f, err), nil)
			} else {
				body, ferr := wb.FromWire(got.Value)
				if ferr != nil || got.Name != string(e.Name) || int8(got.Type) != e.Type || got.SeqID != e.SeqID || !rc.Equal(body, e.Body) {
					bad(fmt.Sprintf("DecodeEnveloped(%s) does not return the envelope written (err=%v)", f, ferr), map[string]any{"got_name_hex": hx([]byte(got.Name)), "got_type": got.Type, "got_seq": got.SeqID, "got_body": body.String()})
				}
			}
			class := r.Intn(wb.NumChunkings)
			cr := wb.NewChunkReader(append(append([]byte{}, b...), 0xEE, 0xEE), class, r.Uint64())
			sr := binary.NewStreamReader(cr)
			h, err := sr.ReadEnvelopeBegin()
			var body rc.W
			if err == nil {
				budget := 1 << 21
				body, err = wb.StreamRead(sr, rc.TStruct, &budget)
			}
			if err == nil {
				err = sr.ReadEnvelopeEnd()
			}
			sr.Close()
			if err != nil {
				bad(fmt.Sprintf("stream ReadEnvelopeBegin(%s, %s) rejects a spec envelope: %v", f, wb.ChunkNames[class], err), nil)
			} else if h.Name != string(e.Name) || int8(h.Type) != e.Type || h.SeqID != e.SeqID || !rc.Equal(body, e.Body) || cr.Off != len(b) {
				bad(fmt.Sprintf("stream envelope read (%s, %s) differs from what was written", f, wb.ChunkNames[class]), map[string]any{"got_name_hex": hx([]byte(h.Name)), "got_type": h.Type, "got_seq": h.SeqID, "got_body": body.String(), "consumed": cr.Off, "len": len(b)})
			}
		}
		// --- requests in the three framings, both APIs
		reply := rc.Gen(r, rc.TStruct, rc.GenOpts{MaxDepth: 2, MaxLen: 3, MaxBin: 8, Budget: 20})
		rt := int8(rc.Reply)
		if r.Chance(1, 4) {
			rt = int8(rc.Exception)
		}
		for _, f := range framings {
			b := frameBytes(f, e)
			et := wire.EnvelopeType(e.Type)
			checkResp := func(api string, out []byte, err error) {
				if err != nil {
					bad(fmt.Sprintf("%s response in %s framing failed: %v", api, f, err), nil)
					return
				}
				gf, ge, n, derr := rc.DecodeMessage(out)
				if derr != nil || n != len(out) || gf != f {
					bad(fmt.Sprintf("%s response to a %s request is not a well-formed %s message (decoded as %s, err=%v)", api, f, f, gf, derr), map[string]any{"response_hex": hx(out)})
					return
				}
				if !rc.Equal(ge.Body, reply) {
					bad(fmt.Sprintf("%s response body differs (%s)", api, f), map[string]any{"response_hex": hx(out)})
				}
				if f != rc.FrameBare && (string(ge.Name) != string(e.Name) || ge.SeqID != e.SeqID || ge.Type != rt) {
					bad(fmt.Sprintf("%s response in %s framing does not echo name/seqid/type", api, f), map[string]any{"response_hex": hx(out), "got_name_hex": hx(ge.Name), "got_seq": ge.SeqID, "got_type": ge.Type})
				}
			}
			// random-access API
			val, resp, err := binary.Default.DecodeRequest(et, bytes.NewReader(b))
			if err != nil {
				bad(fmt.Sprintf("DecodeRequest rejects a spec %s request: %v", f, err), nil)
			} else {
				body, ferr := wb.FromWire(val)
				kind, name, seq := responderKind(resp)
				if ferr != nil || !rc.Equal(body, e.Body) {
					bad(fmt.Sprintf("DecodeRequest(%s) body differs (err=%v)", f, ferr), map[string]any{"got_body": body.String()})
				}
				if kind != f || (f != rc.FrameBare && (name != string(e.Name) || seq != e.SeqID)) {
					bad(fmt.Sprintf("DecodeRequest(%s) returned responder %s name/seq mismatch", f, kind), map[string]any{"resp_name_hex": hx([]byte(name)), "resp_seq": seq})
				}
				var out bytes.Buffer
				err := resp.EncodeResponse(wb.ToWire(reply), wire.EnvelopeType(rt), &out)
				checkResp("EncodeResponse", out.Bytes(), err)
			}
			// wrong message type
			wrong := wire.EnvelopeType((int(e.Type) % 4) + 1)
			if int8(wrong) == e.Type {
				wrong = wire.EnvelopeType((int(e.Type)+1)%4 + 1)
			}
			_, _, werr := binary.Default.DecodeRequest(wrong, bytes.NewReader(b))
			if f != rc.FrameBare && werr == nil {
				bad(fmt.Sprintf("DecodeRequest(%s) accepts message type %d when %d is expected", f, e.Type, wrong), nil)
			}
			// streaming API under a chunking, seekable or not
			class := r.Intn(wb.NumChunkings)
			seekable := r.Chance(1, 3)
			c.Count("req_chunk_"+wb.ChunkNames[class], 1)
			mk := func() (io.Reader, *wb.ChunkReader) {
				if seekable {
					s := &wb.SeekChunkReader{ChunkReader: *wb.NewChunkReader(b, class, r.Uint64())}
					return s, &s.ChunkReader
				}
				cr := wb.NewChunkReader(b, class, r.Uint64())
				return cr, cr
			}
			rd, _ := mk()
			br := &bodyReader{skipMask: uint16(r.Intn(4))}
			rw, err := binary.Default.ReadRequest(context.Background(), et, rd, br)
			if err != nil {
				bad(fmt.Sprintf("ReadRequest rejects a spec %s request under chunking %s (seekable=%v): %v", f, wb.ChunkNames[class], seekable, err), map[string]any{"request_hex": hx(b), "chunking": wb.ChunkNames[class]})
			} else {
				kind, name, seq := responderKind(rw)
				if !rc.Equal(br.w, br.kept(e.Body)) {
					bad(fmt.Sprintf("ReadRequest(%s, %s) body differs", f, wb.ChunkNames[class]), map[string]any{"got_body": br.w.String()})
				}
				if kind != f || (f != rc.FrameBare && (name != string(e.Name) || seq != e.SeqID)) {
					bad(fmt.Sprintf("ReadRequest(%s, %s, seekable=%v) returned responder %s / name / seq mismatch", f, wb.ChunkNames[class], seekable, kind), map[string]any{"resp_name_hex": hx([]byte(name)), "resp_seq": seq})
				}
				var out bytes.Buffer
				err := rw.WriteResponse(wire.EnvelopeType(rt), &out, enveloper{name: string(e.Name), t: wire.EnvelopeType(rt), w: reply})
				checkResp("WriteResponse", out.Bytes(), err)
			}
			rd, _ = mk()
			_, werr = binary.Default.ReadRequest(context.Background(), wrong, rd, &bodyReader{})
			if f != rc.FrameBare && werr == nil {
				bad(fmt.Sprintf("ReadRequest(%s) accepts message type %d when %d is expected", f, e.Type, wrong), nil)
			}
		}
	})
	if i%1999 == 0 {
		c.Sample(map[string]any{"stream": c.Stream, "index": i, "name_hex": hx(e.Name), "type": e.Type, "seqid": e.SeqID, "body": e.Body.String()})
	}
}

// c12Classify: agreement of the two request APIs on arbitrary bytes.
func c12Classify(c *core.Child, i uint64, r *core.Rand, b []byte, et wire.EnvelopeType) {
	c.Count("cases", 1)
	c.Count("classify_cases", 1)
	det := func() map[string]any { return map[string]any{"hex": hx(b), "expected_type": et} }
	guard(c, i, "C12 classify", det, func() {
		val, resp, err := binary.Default.DecodeRequest(et, bytes.NewReader(b))
		var body rc.W
		raOK := err == nil
		if raOK {
			body, err = wb.FromWire(val)
			raOK = err == nil
		}
		class := r.Intn(wb.NumChunkings)
		var rd io.Reader = wb.NewChunkReader(b, class, r.Uint64())
		if r.Chance(1, 3) {
			rd = &wb.SeekChunkReader{ChunkReader: *wb.NewChunkReader(b, class, r.Uint64())}
		}
		br := &bodyReader{skipMask: uint16(r.Intn(4))}
		rw, serr := binary.Default.ReadRequest(context.Background(), et, rd, br)
		if br.budget < 0 {
			c.Count("harness_budget", 1)
			return
		}
		switch {
		case raOK && serr != nil:
			c.Violation(i, fmt.Sprintf("DecodeRequest accepts an input that ReadRequest rejects under chunking %s: %v", wb.ChunkNames[class], serr), "", det())
		case raOK && serr == nil:
			c.Count("classify_both_accept", 1)
			if len(b) >= 4 {
				c.Nontrivial(core.HashBytes([]byte{0xc1}, b))
			}
			k1, n1, s1 := responderKind(resp)
			k2, n2, s2 := responderKind(rw)
			if k1 != k2 || n1 != n2 || s1 != s2 {
				d := det()
				d["decode_request"] = fmt.Sprint(k1, " ", hx([]byte(n1)), " ", s1)
				d["read_request"] = fmt.Sprint(k2, " ", hx([]byte(n2)), " ", s2)
				c.Violation(i, "DecodeRequest and ReadRequest disagree on framing / name / seqid", "", d)
			}
			if !rc.Equal(br.kept(body), br.w) {
				d := det()
				d["decode_request_body"] = body.String()
				d["read_request_body"] = br.w.String()
				c.Violation(i, "DecodeRequest and ReadRequest disagree on the body", "", d)
			}
		case !raOK && serr == nil:
			c.Count("classify_stream_only", 1)
		default:
			c.Count("classify_both_reject", 1)
		}
	})
}

// ---- internal envelope client/server/multiplex (through the verif hook) ------

type loopTransport struct {
	srv      verifhook.EnvelopeServer
	req, res []byte
	err      error
}

func (t *loopTransport) Send(b []byte) ([]byte, error) {
	t.req = append([]byte{}, b...)
	out, err := t.srv.Handle(b)
	t.res, t.err = append([]byte{}, out...), err
	return out, err
}

type svcHandler struct {
	gotName string
	gotBody rc.W
	gotErr  error
	reply   rc.W
	fail    error
}

func (h *svcHandler) Handle(name string, body wire.Value) (wire.Value, error) {
	h.gotName = name
	h.gotBody, h.gotErr = wb.FromWire(body)
	if h.fail != nil {
		return wire.Value{}, h.fail
	}
	return wb.ToWire(h.reply), nil
}

func c12RPC(c *core.Child, i uint64, r *core.Rand) {
	c.Count("cases", 1)
	c.Count("rpc_cases", 1)
	e := genEnvelope(r)
	for k := range e.Name { // method names without ':' so the multiplex split is unambiguous
		if e.Name[k] == ':' {
			e.Name[k] = '_'
		}
	}
	svc := []string{"A", "svc", "Some.Service", "x y"}[r.Intn(4)]
	reply := rc.Gen(r, rc.TStruct, rc.GenOpts{MaxDepth: 2, MaxLen: 3, MaxBin: 8, Budget: 20})
	mode := r.Intn(4) // 0,1 ok; 2 handler error; 3 unknown service
	h := &svcHandler{reply: reply}
	if mode == 2 {
		h.fail = fmt.Errorf("handler failed %d", i)
	}
	mux := verifhook.NewMultiplexHandler()
	mux.Put(svc, h)
	tr := &loopTransport{srv: verifhook.NewEnvelopeServer(protocol.Binary, mux)}
	target := svc
	if mode == 3 {
		target = svc + "-missing"
	}
	cl := verifhook.NewMultiplexClient(target, verifhook.NewEnvelopeClient(protocol.Binary, tr))
	det := func() map[string]any {
		return map[string]any{"service": target, "method_hex": hx(e.Name), "mode": mode, "body": e.Body.String(), "request_hex": hx(tr.req), "response_hex": hx(tr.res)}
	}
	bad := func(what string) { c.Violation(i, what, "", det()) }
	guard(c, i, "C12 rpc", det, func() {
		got, err := cl.Send(string(e.Name), wb.ToWire(e.Body))
		c.Nontrivial(core.HashBytes([]byte{0xc2, byte(mode)}, tr.req))
		// what went over the transport, judged by the reference codec
		fq, qe, qn, qerr := rc.DecodeMessage(tr.req)
		if qerr != nil || qn != len(tr.req) || fq != rc.FrameStrict || qe.Type != rc.Call || string(qe.Name) != target+":"+string(e.Name) || !rc.Equal(qe.Body, e.Body) {
			bad(fmt.Sprintf("client request on the wire is not a versioned Call envelope for %q with the body given (err=%v)", target+":"+string(e.Name), qerr))
			return
		}
		fs, se, sn, serr := rc.DecodeMessage(tr.res)
		if tr.err != nil || serr != nil || sn != len(tr.res) || fs != rc.FrameStrict {
			bad(fmt.Sprintf("server response is not a well-formed versioned envelope (handle err=%v, decode err=%v)", tr.err, serr))
			return
		}
		if string(se.Name) != string(qe.Name) || se.SeqID != qe.SeqID {
			bad("server response does not mirror the request's name and sequence id")
		}
		switch mode {
		case 0, 1:
			if h.gotName != string(e.Name) || h.gotErr != nil || !rc.Equal(h.gotBody, e.Body) {
				bad("handler did not receive the method name / body sent")
			}
			if se.Type != rc.Reply || !rc.Equal(se.Body, reply) {
				bad("successful call is not answered with a Reply envelope carrying the handler's value")
			}
			if err != nil {
				bad("client returns an error for a successful call: " + err.Error())
			} else if gw, ferr := wb.FromWire(got); ferr != nil || !rc.Equal(gw, reply) {
				bad("client does not return the handler's reply value")
			}
		default:
			if se.Type != rc.Exception {
				bad("failed call is not answered with an Exception envelope")
			}
			exc, ok := err.(*verifhook.TApplicationException)
			if !ok {
				bad(fmt.Sprintf("client does not surface a TApplicationException for a failed call (got %T %v)", err, err))
				return
			}
			if mode == 2 && (exc.Message == nil || *exc.Message != h.fail.Error()) {
				bad("TApplicationException does not carry the handler's error message")
			}
			if mode == 3 && h.gotName != "" {
				bad("a call to an unregistered service reached a handler")
			}
			if mode == 3 && (exc.Type == nil || int32(*exc.Type) != 1) {
				bad("unknown service is not reported as UNKNOWN_METHOD (1)")
			}
			if mode == 2 && (exc.Type == nil || int32(*exc.Type) != 6) {
				bad("handler error is not reported as INTERNAL_ERROR (6)")
			}
		}
	})
}
