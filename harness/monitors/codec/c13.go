//go:build verif

package codec

import (
	"bytes"
	"context"
	"encoding/binary"
	"fmt"
	"io"
	"runtime"
	"runtime/debug"
	"strings"

	"go.uber.org/thriftrw/plugin/api"
	tbinary "go.uber.org/thriftrw/protocol/binary"
	"go.uber.org/thriftrw/protocol/stream"
	"go.uber.org/thriftrw/verifhook"
	"go.uber.org/thriftrw/wire"
	"verif/harness/core"
	rc "verif/harness/refcodec"
	wb "verif/harness/wbridge"
)

// Bounds of C13 (DESIGN §5): alloc <= C0 + k*N, reader calls <= c*N + c0.
const (
	c13C0      = 2 << 20
	c13C0Frame = 11 << 20
	c13K       = 128
	c13CallsC  = 64
	c13Calls0  = 256
)

// C13MaxSites bounds the length sites per plugin/api base message.
const C13MaxSites = 48

var c13Magnitudes = []uint32{1 << 16, 1 << 20, 1<<20 + 1, 1 << 24, 1 << 28, 1<<31 - 1}

type countAt struct {
	b     []byte
	calls int
}

func (c *countAt) ReadAt(p []byte, off int64) (int, error) {
	c.calls++
	if off >= int64(len(c.b)) || off < 0 {
		return 0, io.EOF
	}
	n := copy(p, c.b[off:])
	if n < len(p) {
		return n, io.EOF
	}
	return n, nil
}

type decodable interface {
	FromWire(wire.Value) error
	Decode(stream.Reader) error
}

type apiType struct {
	name string
	mk   func() decodable
	base rc.W
}

func str(s string) rc.W { return rc.Binary([]byte(s)) }

func apiTypes() []apiType { return apiTypesTagged("") }

// apiTypesTagged builds the plugin/api base messages with tag appended to
// every name-like string, so concurrent users hold distinct values.
func apiTypesTagged(tag string) []apiType {
	str := func(s string) rc.W { return rc.Binary([]byte(s + tag)) }
	typ := rc.Struct(rc.Field{ID: 1, V: rc.I32(1)})
	pair := rc.Struct(rc.Field{ID: 1, V: typ}, rc.Field{ID: 2, V: typ}, rc.Field{ID: 3, V: rc.Map(rc.TBinary, rc.TBinary, str("k"), str("v"))})
	arg := rc.Struct(rc.Field{ID: 1, V: str("a")}, rc.Field{ID: 2, V: typ}, rc.Field{ID: 3, V: rc.Map(rc.TBinary, rc.TBinary, str("k"), str("v"))})
	fn := rc.Struct(rc.Field{ID: 1, V: str("F")}, rc.Field{ID: 2, V: str("f")}, rc.Field{ID: 3, V: rc.List(rc.TStruct, arg)},
		rc.Field{ID: 4, V: typ}, rc.Field{ID: 5, V: rc.List(rc.TStruct, arg)}, rc.Field{ID: 6, V: rc.Bool(true)})
	svc := rc.Struct(rc.Field{ID: 7, V: str("S")}, rc.Field{ID: 1, V: str("s")}, rc.Field{ID: 4, V: rc.I32(2)},
		rc.Field{ID: 5, V: rc.List(rc.TStruct, fn)}, rc.Field{ID: 6, V: rc.I32(1)})
	mod := rc.Struct(rc.Field{ID: 1, V: str("p")}, rc.Field{ID: 2, V: str("d")}, rc.Field{ID: 3, V: str("t")})
	req := rc.Struct(rc.Field{ID: 1, V: rc.List(rc.TI32, rc.I32(1), rc.I32(2))},
		rc.Field{ID: 2, V: rc.Map(rc.TI32, rc.TStruct, rc.I32(1), svc)},
		rc.Field{ID: 3, V: rc.Map(rc.TI32, rc.TStruct, rc.I32(1), mod)},
		rc.Field{ID: 4, V: str("")}, rc.Field{ID: 5, V: str("r")}, rc.Field{ID: 6, V: rc.List(rc.TI32, rc.I32(1))})
	small := rc.Struct(rc.Field{ID: 1, V: rc.List(rc.TI32, rc.I32(1))}, rc.Field{ID: 2, V: rc.Map(rc.TI32, rc.TStruct)},
		rc.Field{ID: 3, V: rc.Map(rc.TI32, rc.TStruct)}, rc.Field{ID: 4, V: str("")}, rc.Field{ID: 5, V: str("")})
	return []apiType{
		{"api.GenerateServiceRequest", func() decodable { return new(api.GenerateServiceRequest) }, req},
		{"api.GenerateServiceRequest(small)", func() decodable { return new(api.GenerateServiceRequest) }, small},
		{"api.GenerateServiceResponse", func() decodable { return new(api.GenerateServiceResponse) },
			rc.Struct(rc.Field{ID: 1, V: rc.Map(rc.TBinary, rc.TBinary, str("a.go"), str("x"))})},
		{"api.HandshakeResponse", func() decodable { return new(api.HandshakeResponse) },
			rc.Struct(rc.Field{ID: 1, V: str("n")}, rc.Field{ID: 2, V: rc.I32(3)}, rc.Field{ID: 3, V: rc.List(rc.TI32, rc.I32(1))}, rc.Field{ID: 4, V: str("v")})},
		{"api.Function", func() decodable { return new(api.Function) }, fn},
		{"api.Service", func() decodable { return new(api.Service) }, svc},
		{"api.Type", func() decodable { return new(api.Type) }, rc.Struct(rc.Field{ID: 4, V: pair})},
		{"api.TypeReference", func() decodable { return new(api.TypeReference) },
			rc.Struct(rc.Field{ID: 1, V: str("n")}, rc.Field{ID: 2, V: str("p")}, rc.Field{ID: 3, V: rc.Map(rc.TBinary, rc.TBinary, str("k"), str("v"))})},
	}
}

// op is one decoding API applied to one message.
type op struct {
	api string
	c0  uint64
	run func(msg []byte) (calls int)
}

func c13ValueOps(t byte) []op {
	return []op{
		{"binary.Default.Decode+force", c13C0, func(msg []byte) int {
			ra := &countAt{b: msg}
			v, err := tbinary.Default.Decode(ra, wire.Type(t))
			if err == nil {
				wb.FromWire(v)
			}
			return ra.calls
		}},
		{"binary.Default.Decode+wire.*ToSlice", c13C0, func(msg []byte) int {
			ra := &countAt{b: msg}
			v, err := tbinary.Default.Decode(ra, wire.Type(t))
			if err == nil {
				toSlices(v, 0)
			}
			return ra.calls
		}},
		{"stream.Reader generic read", c13C0, func(msg []byte) int {
			cr := wb.NewChunkReader(msg, wb.ChunkWhole, 1)
			sr := tbinary.Default.Reader(cr)
			budget := 1 << 16
			wb.StreamRead(sr, t, &budget)
			sr.Close()
			return cr.Calls
		}},
		{"stream.Reader.Skip", c13C0, func(msg []byte) int {
			cr := wb.NewChunkReader(msg, wb.ChunkWhole, 1)
			sr := tbinary.Default.Reader(cr)
			sr.Skip(wire.Type(t))
			sr.Close()
			return cr.Calls
		}},
		{"stream.Reader.Skip(seekable)", c13C0, func(msg []byte) int {
			cr := &wb.SeekChunkReader{ChunkReader: *wb.NewChunkReader(msg, wb.ChunkWhole, 1)}
			sr := tbinary.Default.Reader(cr)
			sr.Skip(wire.Type(t))
			sr.Close()
			return cr.Calls + cr.Seeks
		}},
	}
}

// toSlices materialises a decoded value with thriftrw's own helpers, which
// size their result from Size().
func toSlices(v wire.Value, depth int) {
	if depth > 16 {
		return
	}
	switch v.Type() {
	case wire.TList:
		l := v.GetList()
		for _, x := range wire.ValueListToSlice(l) {
			toSlices(x, depth+1)
		}
		l.Close()
	case wire.TSet:
		l := v.GetSet()
		for _, x := range wire.ValueListToSlice(l) {
			toSlices(x, depth+1)
		}
		l.Close()
	case wire.TMap:
		m := v.GetMap()
		for _, it := range wire.MapItemListToSlice(m) {
			toSlices(it.Key, depth+1)
			toSlices(it.Value, depth+1)
		}
		m.Close()
	case wire.TStruct:
		for _, f := range v.GetStruct().Fields {
			toSlices(f.Value, depth+1)
		}
	}
}

func c13EnvelopeOps() []op {
	return []op{
		{"DecodeEnveloped", c13C0, func(msg []byte) int {
			ra := &countAt{b: msg}
			e, err := tbinary.Default.DecodeEnveloped(ra)
			if err == nil {
				wb.FromWire(e.Value)
			}
			return ra.calls
		}},
		{"ReadEnvelopeBegin+body", c13C0, func(msg []byte) int {
			cr := wb.NewChunkReader(msg, wb.ChunkWhole, 1)
			sr := tbinary.NewStreamReader(cr)
			if _, err := sr.ReadEnvelopeBegin(); err == nil {
				budget := 1 << 16
				wb.StreamRead(sr, rc.TStruct, &budget)
			}
			sr.Close()
			return cr.Calls
		}},
		{"DecodeRequest", c13C0, func(msg []byte) int {
			ra := &countAt{b: msg}
			v, _, err := tbinary.Default.DecodeRequest(wire.Call, ra)
			if err == nil {
				wb.FromWire(v)
			}
			return ra.calls
		}},
		{"ReadRequest", c13C0, func(msg []byte) int {
			cr := wb.NewChunkReader(msg, wb.ChunkWhole, 1)
			tbinary.Default.ReadRequest(context.Background(), wire.Call, cr, &bodyReader{})
			return cr.Calls
		}},
		{"ReadRequest(seekable)", c13C0, func(msg []byte) int {
			cr := &wb.SeekChunkReader{ChunkReader: *wb.NewChunkReader(msg, wb.ChunkWhole, 1)}
			tbinary.Default.ReadRequest(context.Background(), wire.Call, cr, &bodyReader{})
			return cr.Calls + cr.Seeks
		}},
	}
}

func c13FrameOps() []op {
	return []op{
		{"frame.Reader.Read", c13C0Frame, func(msg []byte) int {
			cr := wb.NewChunkReader(msg, wb.ChunkWhole, 1)
			fr := verifhook.NewFrameReader(cr)
			fr.Read()
			return cr.Calls
		}},
	}
}

func c13APIOps(at apiType) []op {
	return []op{
		{at.name + ".FromWire(Decode)", c13C0, func(msg []byte) int {
			ra := &countAt{b: msg}
			v, err := tbinary.Default.Decode(ra, wire.TStruct)
			if err == nil {
				at.mk().FromWire(v)
			}
			return ra.calls
		}},
		{at.name + ".Decode(stream)", c13C0, func(msg []byte) int {
			cr := wb.NewChunkReader(msg, wb.ChunkWhole, 1)
			sr := tbinary.Default.Reader(cr)
			at.mk().Decode(sr)
			sr.Close()
			return cr.Calls
		}},
	}
}

// measure runs fn and returns the bytes allocated during it.
func measure(fn func()) (alloc uint64, pan interface{}, stack string) {
	var m0, m1 runtime.MemStats
	runtime.ReadMemStats(&m0)
	func() {
		defer func() {
			if p := recover(); p != nil {
				pan = p
				stack = string(debug.Stack())
			}
		}()
		fn()
	}()
	runtime.ReadMemStats(&m1)
	return m1.TotalAlloc - m0.TotalAlloc, pan, stack
}

// attribute re-runs fn with every allocation profiled and returns the
// thriftrw function owning the largest allocation site.
func attribute(fn func()) (site string, bytes int64, frames []string) {
	old := runtime.MemProfileRate
	runtime.MemProfileRate = 1
	defer func() { runtime.MemProfileRate = old }()
	snap := func() map[[32]uintptr]int64 {
		runtime.GC()
		runtime.GC()
		n, _ := runtime.MemProfile(nil, true)
		recs := make([]runtime.MemProfileRecord, n+200)
		n, ok := runtime.MemProfile(recs, true)
		if !ok {
			return nil
		}
		m := map[[32]uintptr]int64{}
		for _, r := range recs[:n] {
			m[r.Stack0] += r.AllocBytes
		}
		return m
	}
	before := snap()
	func() {
		defer func() { recover() }()
		fn()
	}()
	after := snap()
	var best [32]uintptr
	for k, v := range after {
		if d := v - before[k]; d > bytes {
			bytes, best = d, k
		}
	}
	if bytes == 0 {
		return "unattributed", 0, nil
	}
	var pcs []uintptr
	for _, pc := range best {
		if pc == 0 {
			break
		}
		pcs = append(pcs, pc)
	}
	fr := runtime.CallersFrames(pcs)
	for {
		f, more := fr.Next()
		frames = append(frames, f.Function)
		if site == "" && strings.HasPrefix(f.Function, "go.uber.org/thriftrw") {
			site = f.Function
		}
		if !more {
			break
		}
	}
	if site == "" {
		site = "harness"
	}
	return site, bytes, frames
}

// C13 child. One case = one base message; every length site x magnitude x API
// of its family is measured separately.
func C13(c *core.Child) {
	apis := apiTypes()
	c.Loop(func(i uint64, r *core.Rand) {
		var base []byte
		var sites []int
		var ops []op
		family := c.Stream
		switch family {
		case "value":
			o := rc.GenOpts{MaxDepth: 3, MaxLen: 2, MaxBin: 4, Budget: 8}
			t := []byte{rc.TBinary, rc.TStruct, rc.TMap, rc.TSet, rc.TList}[r.Intn(5)]
			w := rc.Gen(r, t, o)
			base = rc.Encode(w)
			sites = rc.LengthSites(base, t, 0)
			ops = c13ValueOps(t)
		case "envelope":
			e := genEnvelope(r)
			if len(e.Name) > 8 {
				e.Name = e.Name[:8]
			}
			e.Type = rc.Call
			e.Body = rc.Gen(r, rc.TStruct, rc.GenOpts{MaxDepth: 2, MaxLen: 2, MaxBin: 4, Budget: 6})
			if r.Bool() {
				base = rc.AppendStrict(nil, e)
				sites = append([]int{4}, rc.LengthSites(base, rc.TStruct, 4+4+len(e.Name)+4)...)
			} else {
				base = rc.AppendLegacy(nil, e)
				sites = append([]int{0}, rc.LengthSites(base, rc.TStruct, 4+len(e.Name)+1+4)...)
			}
			ops = c13EnvelopeOps()
		case "frame":
			base = rc.Frame(r.Bytes(r.Intn(20)))
			sites = []int{0}
			ops = c13FrameOps()
		case "api":
			// one case = (type, site, magnitude, API) so that an out-of-memory
			// death costs exactly one case
			k := int(i)
			opIdx := k % 2
			k /= 2
			magIdx := k % len(c13Magnitudes)
			k /= len(c13Magnitudes)
			siteIdx := k % C13MaxSites
			typeIdx := k / C13MaxSites
			if typeIdx >= len(apis) {
				return
			}
			at := apis[typeIdx]
			base = rc.Encode(at.base)
			sites = rc.LengthSites(base, rc.TStruct, 0)
			if siteIdx >= len(sites) {
				return
			}
			msg := append([]byte{}, base...)
			binary.BigEndian.PutUint32(msg[sites[siteIdx]:], c13Magnitudes[magIdx])
			c13One(c, i, family, c13APIOps(at)[opIdx], msg, sites[siteIdx], c13Magnitudes[magIdx])
			return
		}
		c.Count("bases", 1)
		for _, off := range sites {
			orig := binary.BigEndian.Uint32(base[off:])
			// absolute magnitudes, plus counts that wrap a 32-bit byte-length
			// product back onto the bytes actually present
			mags := append(append([]uint32{}, c13Magnitudes...), orig+1<<28, orig+1<<29, orig+1<<30)
			for _, mag := range mags {
				msg := append([]byte{}, base...)
				binary.BigEndian.PutUint32(msg[off:], mag)
				if family != "api" && len(msg) > 64 {
					msg = msg[:64]
					if off+4 > 64 {
						continue
					}
				}
				for _, o := range ops {
					c13One(c, i, family, o, msg, off, mag)
				}
			}
		}
	})
}

func c13One(c *core.Child, i uint64, family string, o op, msg []byte, off int, mag uint32) {
	if family == "api" {
		c.Flush() // these cases may die of out-of-memory; keep what was observed
	}
	c.DumpCase(map[string]any{"api": o.api, "hex": hx(msg), "site": off, "declared": mag})
	n := uint64(len(msg))
	var calls int
	alloc, pan, stack := measure(func() { calls = o.run(msg) })
	c.Count("cases", 1) // counted after the call: a case that kills the child is counted by the parent as a violation
	c.Count("api_"+o.api, 1)
	c.Nontrivial(core.HashBytes([]byte(o.api), msg))
	det := func() map[string]any {
		return map[string]any{"api": o.api, "message_hex": hx(msg), "message_len": n, "length_site_offset": off, "declared": mag, "alloc_bytes": alloc, "reader_calls": calls}
	}
	if pan != nil {
		d := det()
		d["panic"] = fmt.Sprint(pan)
		d["stack"] = stack
		sig := "panic:" + topFrame(stack)
		if strings.Contains(fmt.Sprint(pan), "makeslice") || strings.Contains(fmt.Sprint(pan), "out of range") {
			sig = "alloc:" + topFrame(stack)
		}
		c.Violation(i, fmt.Sprintf("%s panics on a %d-byte message declaring length %d: %v", o.api, n, mag, pan), sig, d)
		return
	}
	if alloc > o.c0+c13K*n {
		site, bytes, frames := attribute(func() { o.run(msg) })
		d := det()
		d["alloc_site"] = site
		d["alloc_site_bytes"] = bytes
		d["alloc_stack"] = frames
		d["bound"] = o.c0 + c13K*n
		c.Count("over_alloc_bound", 1)
		c.Violation(i, fmt.Sprintf("%s allocates %d bytes for a %d-byte message declaring length %d (bound %d); largest site %s", o.api, alloc, n, mag, o.c0+c13K*n, site), "alloc:"+site, d)
		return
	}
	if uint64(calls) > c13CallsC*n+c13Calls0 {
		d := det()
		d["bound"] = c13CallsC*n + c13Calls0
		c.Violation(i, fmt.Sprintf("%s makes %d reader calls for a %d-byte message declaring length %d", o.api, calls, n, mag), "work:"+o.api, d)
	}
	if i%97 == 0 && mag == 1<<28 {
		c.Sample(map[string]any{"api": o.api, "message_hex": hx(msg), "declared": mag, "alloc_bytes": alloc, "reader_calls": calls})
	}
	_ = bytes.MinRead
}
