//go:build verif

package idlmon

import (
	"fmt"
	"path"
	"sort"
	"strconv"
	"strings"

	"go.uber.org/thriftrw/ast"
	"go.uber.org/thriftrw/compile"
	"verif/harness/idlm"
)

// MemFS serves a model program to the compiler from memory.
type MemFS struct {
	Root  string
	Files map[string][]byte
}

func NewMemFS(p *idlm.Program) *MemFS {
	fs := &MemFS{Root: "/sandbox", Files: map[string][]byte{}}
	for _, f := range p.Files {
		fs.Files[path.Join(fs.Root, f.Path)] = []byte(f.Text)
	}
	return fs
}

func (fs *MemFS) Read(p string) ([]byte, error) {
	b, ok := fs.Files[p]
	if !ok {
		return nil, fmt.Errorf("open %s: no such file", p)
	}
	return b, nil
}

func (fs *MemFS) Abs(p string) (string, error) {
	if !path.IsAbs(p) {
		p = path.Join(fs.Root, p)
	}
	return path.Clean(p), nil
}

func (fs *MemFS) rel(p string) string {
	return strings.TrimPrefix(p, fs.Root+"/")
}

type dumper struct {
	fs       *MemFS
	out      []string
	problems []string
	defs     map[string]interface{} // file:name -> the one object that may represent it
	mods     map[string]*compile.Module
}

func (d *dumper) add(f string, a ...any) { d.out = append(d.out, fmt.Sprintf(f, a...)) }

func (d *dumper) problem(f string, a ...any) {
	if len(d.problems) < 5 {
		d.problems = append(d.problems, fmt.Sprintf(f, a...))
	}
}

func (d *dumper) identity(key string, obj interface{}) {
	if old, ok := d.defs[key]; ok && old != obj {
		d.problem("definition %s is represented by two different objects (compiled twice / not shared)", key)
	}
	d.defs[key] = obj
}

func (d *dumper) typ(t compile.TypeSpec) string {
	if t == nil {
		return "void"
	}
	switch s := t.(type) {
	case *compile.BoolSpec:
		return "bool"
	case *compile.I8Spec:
		return "i8"
	case *compile.I16Spec:
		return "i16"
	case *compile.I32Spec:
		return "i32"
	case *compile.I64Spec:
		return "i64"
	case *compile.DoubleSpec:
		return "double"
	case *compile.StringSpec:
		return "string"
	case *compile.BinarySpec:
		return "binary"
	case *compile.MapSpec:
		return "map<" + d.typ(s.KeySpec) + "," + d.typ(s.ValueSpec) + ">"
	case *compile.ListSpec:
		return "list<" + d.typ(s.ValueSpec) + ">"
	case *compile.SetSpec:
		return "set<" + d.typ(s.ValueSpec) + ">"
	case *compile.EnumSpec:
		k := d.fs.rel(s.File) + ":" + s.Name
		d.identity(k, s)
		return k
	case *compile.StructSpec:
		k := d.fs.rel(s.File) + ":" + s.Name
		d.identity(k, s)
		return k
	case *compile.TypedefSpec:
		k := d.fs.rel(s.File) + ":" + s.Name
		d.identity(k, s)
		return k
	}
	return fmt.Sprintf("UNRESOLVED(%T %s)", t, t.ThriftName())
}

func fmtDouble(f float64) string {
	if f == 0 {
		return "0"
	}
	return strconv.FormatFloat(f, 'g', -1, 64)
}

func (d *dumper) val(v compile.ConstantValue, depth int) string {
	if depth > 60 {
		return "<too deep>"
	}
	switch c := v.(type) {
	case nil:
		return "<nil>"
	case compile.ConstantBool:
		return strconv.FormatBool(bool(c))
	case compile.ConstantInt:
		return strconv.FormatInt(int64(c), 10)
	case compile.ConstantDouble:
		return fmtDouble(float64(c))
	case compile.ConstantString:
		return strconv.Quote(string(c))
	case compile.EnumItemReference:
		return "enum(" + strconv.FormatInt(int64(c.Item.Value), 10) + ")"
	case compile.ConstantList:
		var p []string
		for _, it := range c {
			p = append(p, d.val(it, depth+1))
		}
		return "[" + strings.Join(p, ",") + "]"
	case compile.ConstantSet:
		var p []string
		for _, it := range c {
			p = append(p, d.val(it, depth+1))
		}
		sort.Strings(p)
		return "set[" + strings.Join(p, ",") + "]"
	case compile.ConstantMap:
		var p []string
		for _, it := range c {
			p = append(p, d.val(it.Key, depth+1)+":"+d.val(it.Value, depth+1))
		}
		sort.Strings(p)
		return "{" + strings.Join(p, ",") + "}"
	case *compile.ConstantStruct:
		var names []string
		for n := range c.Fields {
			names = append(names, n)
		}
		sort.Strings(names)
		var p []string
		for _, n := range names {
			p = append(p, n+"="+d.val(c.Fields[n], depth+1))
		}
		return "struct{" + strings.Join(p, ",") + "}"
	case compile.ConstReference:
		if c.Target == nil {
			return "ref(<nil>)"
		}
		// a kept reference denotes the target's value (kept only when the types coincide)
		return d.val(c.Target.Value, depth+1)
	}
	return fmt.Sprintf("UNLINKED(%T)", v)
}

func (d *dumper) fields(prefix string, kind string, fg compile.FieldGroup) {
	for _, f := range fg {
		def := "-"
		if f.Default != nil {
			def = d.val(f.Default, 0)
		}
		switch kind {
		case "field":
			d.add("%s.%s id=%d required=%v type=%s default=%s", prefix, f.Name, f.ID, f.Required, d.typ(f.Type), def)
		case "arg":
			d.add("%s arg %s id=%d required=%v type=%s", prefix, f.Name, f.ID, f.Required, d.typ(f.Type))
		case "throws":
			d.add("%s throws %s id=%d type=%s", prefix, f.Name, f.ID, d.typ(f.Type))
		}
	}
}

// DumpModules renders the compiled module graph in the model's canonical form.
func DumpModules(root *compile.Module, fs *MemFS) (lines []string, problems []string) {
	d := &dumper{fs: fs, defs: map[string]interface{}{}, mods: map[string]*compile.Module{}}
	var visit func(m *compile.Module)
	visit = func(m *compile.Module) {
		if old, ok := d.mods[m.ThriftPath]; ok {
			if old != m {
				d.problem("file %s is represented by two module objects", fs.rel(m.ThriftPath))
			}
			return
		}
		d.mods[m.ThriftPath] = m
		mp := fs.rel(m.ThriftPath)
		d.add("module %s", mp)
		for name, inc := range m.Includes {
			if inc.Name != name {
				d.problem("include map key %q holds include named %q", name, inc.Name)
			}
			d.add("%s include %s -> %s", mp, name, fs.rel(inc.Module.ThriftPath))
			visit(inc.Module)
		}
		for name, t := range m.Types {
			if t.ThriftName() != name {
				d.problem("type map key %q holds type named %q", name, t.ThriftName())
			}
			switch s := t.(type) {
			case *compile.TypedefSpec:
				d.identity(mp+":"+name, s)
				d.add("%s typedef %s target=%s root=%s", mp, name, d.typ(s.Target), d.typ(compile.RootTypeSpec(s)))
			case *compile.EnumSpec:
				d.identity(mp+":"+name, s)
				var its []string
				for _, it := range s.Items {
					its = append(its, fmt.Sprintf("%s=%d", it.Name, it.Value))
				}
				d.add("%s enum %s {%s}", mp, name, strings.Join(its, ","))
			case *compile.StructSpec:
				d.identity(mp+":"+name, s)
				kind := "struct"
				switch s.Type {
				case ast.UnionType:
					kind = "union"
				case ast.ExceptionType:
					kind = "exception"
				}
				d.add("%s %s %s", mp, kind, name)
				d.fields(mp+"   "+name, "field", s.Fields)
			default:
				d.add("%s UNEXPECTED type entry %s %T", mp, name, t)
			}
		}
		for name, c := range m.Constants {
			d.add("%s const %s type=%s value=%s", mp, name, d.typ(c.Type), d.val(c.Value, 0))
		}
		for name, s := range m.Services {
			parent := "-"
			if s.Parent != nil {
				parent = fs.rel(s.Parent.File) + ":" + s.Parent.Name
				d.identity("service "+parent, s.Parent)
			}
			d.identity("service "+mp+":"+name, s)
			d.add("%s service %s parent=%s", mp, name, parent)
			for fname, fn := range s.Functions {
				ret := "void"
				if fn.ResultSpec != nil && fn.ResultSpec.ReturnType != nil {
					ret = d.typ(fn.ResultSpec.ReturnType)
				}
				d.add("%s   %s.%s oneway=%v returns=%s", mp, name, fname, fn.OneWay, ret)
				d.fields(fmt.Sprintf("%s     %s.%s", mp, name, fname), "arg", compile.FieldGroup(fn.ArgsSpec))
				if fn.ResultSpec != nil {
					d.fields(fmt.Sprintf("%s     %s.%s", mp, name, fname), "throws", fn.ResultSpec.Exceptions)
				}
			}
		}
	}
	visit(root)
	sort.Strings(d.out)
	return d.out, d.problems
}
