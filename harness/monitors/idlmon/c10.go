//go:build verif

package idlmon

import (
	"crypto/sha256"
	"encoding/hex"
	"encoding/json"
	"fmt"
	"os"
	"os/exec"
	"path/filepath"
	"runtime/debug"
	"sort"
	"strings"

	"go.uber.org/thriftrw/compile"
	"go.uber.org/thriftrw/gen"
	"go.uber.org/thriftrw/plugin/api"
	"verif/harness/core"
	"verif/harness/idlm"
)

type capture struct{ req *api.GenerateServiceRequest }

func (c *capture) Generate(r *api.GenerateServiceRequest) (*api.GenerateServiceResponse, error) {
	c.req = r
	return &api.GenerateServiceResponse{}, nil
}

// canonRequest renders a plugin request independent of the arbitrary
// numbering of module and service ids.
func canonRequest(r *api.GenerateServiceRequest) string {
	if r == nil {
		return "<no request>"
	}
	mkey := func(id api.ModuleID) string {
		if m := r.Modules[id]; m != nil {
			return m.ThriftFilePath
		}
		return fmt.Sprintf("<unknown module %d>", id)
	}
	skey := func(id api.ServiceID) string {
		if s := r.Services[id]; s != nil {
			return mkey(s.ModuleID) + ":" + s.ThriftName
		}
		return fmt.Sprintf("<unknown service %d>", id)
	}
	var lines []string
	lines = append(lines, "prefix="+r.PackagePrefix, "root="+r.ThriftRoot)
	var rs, rm []string
	for _, id := range r.RootServices {
		rs = append(rs, skey(id))
	}
	for _, id := range r.RootModules {
		rm = append(rm, mkey(id))
	}
	sort.Strings(rs)
	sort.Strings(rm)
	lines = append(lines, "rootServices="+strings.Join(rs, ","), "rootModules="+strings.Join(rm, ","))
	var ms []string
	for id, m := range r.Modules {
		ms = append(ms, fmt.Sprintf("module %s import=%s dir=%s", mkey(id), m.ImportPath, m.Directory))
	}
	sort.Strings(ms)
	lines = append(lines, ms...)
	var ss []string
	for id, s := range r.Services {
		parent := "-"
		if s.ParentID != nil {
			parent = skey(*s.ParentID)
		}
		fj, _ := json.Marshal(s.Functions)
		aj, _ := json.Marshal(s.Annotations)
		ss = append(ss, fmt.Sprintf("service %s name=%s parent=%s module=%s functions=%s annotations=%s", skey(id), s.Name, parent, mkey(s.ModuleID), fj, aj))
	}
	sort.Strings(ss)
	lines = append(lines, ss...)
	return strings.Join(lines, "\n")
}

// treeDigest hashes every file under dir (path + content).
func treeDigest(dir string) (string, []string) {
	h := sha256.New()
	var paths []string
	filepath.Walk(dir, func(p string, info os.FileInfo, err error) error {
		if err != nil || info.IsDir() {
			return nil
		}
		rel, _ := filepath.Rel(dir, p)
		paths = append(paths, rel)
		return nil
	})
	sort.Strings(paths)
	for _, rel := range paths {
		b, _ := os.ReadFile(filepath.Join(dir, rel))
		fh := sha256.Sum256(b)
		fmt.Fprintf(h, "%s %x\n", rel, fh)
	}
	return hex.EncodeToString(h.Sum(nil)[:12]), paths
}

type genOutcome struct {
	digest string // "ok <tree> <request>" or "fail"
	detail string
	paths  []string
	pan    string
}

func genOnce(mem *MemFS, root string, order compile.VerifLinkOrder, o gen.Options, outDir string) (res genOutcome) {
	defer os.RemoveAll(outDir)
	defer func() {
		if keep := os.Getenv("VERIF_C10_KEEP"); keep != "" {
			// debugging aid: keep the last generated tree
			os.RemoveAll(keep)
			exec.Command("cp", "-r", outDir, keep).Run()
		}
	}()
	defer func() {
		if p := recover(); p != nil {
			res.pan = fmt.Sprint(p) + "\n" + string(debug.Stack())
			res.digest = "panic"
		}
	}()
	var m *compile.Module
	var err error
	if order != nil {
		m, err = compile.CompileWithLinkOrder(filepath.Join(mem.Root, root), order, compile.Filesystem(mem))
	} else {
		m, err = compile.Compile(filepath.Join(mem.Root, root), compile.Filesystem(mem))
	}
	if err != nil {
		return genOutcome{digest: "fail", detail: "compile: " + oneLine(err.Error())}
	}
	cp := &capture{}
	o.OutputDir = outDir
	o.ThriftRoot = filepath.Join(mem.Root, "idl")
	o.PackagePrefix = "example.com/gen"
	o.NoVersionCheck = true
	o.Plugin = gen.CodeGenerator{ServiceGenerator: cp}
	if err := gen.Generate(m, &o); err != nil {
		return genOutcome{digest: "fail", detail: "generate: " + oneLine(err.Error())}
	}
	tree, paths := treeDigest(outDir)
	rq := sha256.Sum256([]byte(canonRequest(cp.req)))
	return genOutcome{digest: "ok tree=" + tree + " request=" + hex.EncodeToString(rq[:8]), paths: paths, detail: canonRequest(cp.req)}
}

// plantedChain builds a program by hand (not through the model generator): a
// service inheritance chain that crosses 3-5 modules, each of which includes
// only the next one, so the root reaches the deep modules only transitively;
// next to it 1-3 sibling modules that include a deep module of the chain
// directly. Which of the root's includes is generated first is then decided by
// whatever order the generator walks them in: a result (or a plugin request)
// that depends on that order shows up as a difference between runs.
func plantedChain(r *core.Rand) *idlm.Program {
	depth := r.Range(3, 5)
	dirs := []string{"", "sub/", "a/b/", "shared/"}
	names := []string{"alpha", "beta", "gamma", "delta", "eps", "zeta", "eta", "theta", "iota", "kappa"}
	for i := len(names) - 1; i > 0; i-- {
		j := r.Intn(i + 1)
		names[i], names[j] = names[j], names[i]
	}
	type mod struct{ path, name string }
	mk := func(n string) mod { return mod{path: "idl/" + dirs[r.Intn(len(dirs))] + n + ".thrift", name: n} }
	rel := func(from, to mod) string {
		rp, err := filepath.Rel(filepath.Dir(from.path), to.path)
		if err != nil {
			panic(err)
		}
		if !strings.HasPrefix(rp, ".") {
			rp = "./" + rp
		}
		return rp
	}
	chain := make([]mod, depth)
	for i := range chain {
		chain[i] = mk(names[i])
	}
	p := &idlm.Program{ThriftRoot: "idl"}
	add := func(m mod, text string) { p.Files = append(p.Files, &idlm.File{Path: m.path, Text: text}) }
	root := mod{path: "idl/root.thrift", name: "root"}
	nsib := r.Range(1, 3)
	sibs := make([]mod, nsib)
	var rootText strings.Builder
	incs := []mod{chain[0]}
	for i := range sibs {
		sibs[i] = mk(names[depth+i])
		incs = append(incs, sibs[i])
	}
	for i := len(incs) - 1; i > 0; i-- {
		j := r.Intn(i + 1)
		incs[i], incs[j] = incs[j], incs[i]
	}
	for _, m := range incs {
		fmt.Fprintf(&rootText, "include \"%s\"\n", rel(root, m))
	}
	if r.Chance(1, 2) {
		fmt.Fprintf(&rootText, "service Top extends %s.Svc0 {\n  void ping()\n}\n", chain[0].name)
	} else {
		fmt.Fprintf(&rootText, "struct Holder {\n  1: optional %s.Rec0 rec\n}\n", chain[0].name)
	}
	add(root, rootText.String())
	for i, m := range chain {
		var t strings.Builder
		if i+1 < depth {
			fmt.Fprintf(&t, "include \"%s\"\n", rel(m, chain[i+1]))
		}
		fmt.Fprintf(&t, "struct Rec%d {\n  1: optional i32 v\n}\n", i)
		if i+1 < depth {
			fmt.Fprintf(&t, "service Svc%d extends %s.Svc%d {\n  Rec%d get%d(1: i64 key)\n}\n", i, chain[i+1].name, i+1, i, i)
		} else {
			fmt.Fprintf(&t, "service Svc%d {\n  Rec%d get%d(1: i64 key)\n}\n", i, i, i)
		}
		add(m, t.String())
	}
	for i, m := range sibs {
		di := r.Range(2, depth-1)
		deep := chain[di]
		var t strings.Builder
		fmt.Fprintf(&t, "include \"%s\"\n", rel(m, deep))
		if r.Chance(1, 2) {
			fmt.Fprintf(&t, "service Side%d extends %s.Svc%d {\n  void side()\n}\n", i, deep.name, di)
		} else {
			fmt.Fprintf(&t, "struct SideRec%d {\n  1: optional %s.Rec%d r\n}\n", i, deep.name, di)
		}
		add(m, t.String())
	}
	return p
}

// C10 child: one case = one program generated many times.
func C10(c *core.Child) {
	outDir := c.Arg("out", "/var/tmp/c10") + ".gen"
	c.Loop(func(i uint64, r *core.Rand) {
		o := idlm.SemOpts{MaxFiles: 5, MaxDefs: 6, Services: true, Constants: true, Defaults: true, Dirs: true, ForGen: true, GoAnns: true, Redact: true, PkgNameClash: true, IncludeBias: true, ServiceBias: r.Chance(1, 2), ChainMode: r.Chance(1, 2), ManyTypes: r.Chance(1, 3)}
		o.Off = offFromArgs(c)
		var p *idlm.Program
		planted := i%6 == 5
		if planted {
			p = plantedChain(r)
			c.Count("planted_inheritance_chains", 1)
		} else {
			p = idlm.GenProgram(r, o)
			p.RenderAll(r, idlm.PlainLayout)
		}
		gopt := gen.Options{NoZap: r.Chance(1, 3), EnumTextMarshalStrict: r.Chance(1, 3), NoRecurse: r.Chance(1, 5)}
		if r.Chance(1, 8) {
			gopt.OutputFile = "out.go"
		}
		if planted {
			gopt.NoRecurse, gopt.OutputFile = false, ""
		}
		c.DumpCase(map[string]any{"files": programText(p)})
		c.Count("cases", 1)
		mem := NewMemFS(p)
		root := p.Files[0].Path
		det := func(extra map[string]any) map[string]any {
			d := map[string]any{"files": programText(p), "root": root, "options": fmt.Sprintf("%+v", gopt)}
			for k, v := range extra {
				d[k] = v
			}
			return d
		}
		first := genOnce(mem, root, nil, gopt, outDir)
		if first.pan != "" {
			c.Violation(i, "code generation panics: "+strings.SplitN(first.pan, "\n", 2)[0], "panic:"+topFrame(first.pan), det(map[string]any{"panic": first.pan}))
			return
		}
		runs := 1
		compare := func(res genOutcome, how string, extra map[string]any) bool {
			runs++
			if res.pan != "" {
				extra["panic"] = res.pan
				c.Violation(i, "code generation panics ("+how+"): "+strings.SplitN(res.pan, "\n", 2)[0], "panic:"+topFrame(res.pan), det(extra))
				return false
			}
			if res.digest != first.digest {
				extra["first_run"] = first.digest + " " + first.detail
				extra["this_run"] = res.digest + " " + res.detail
				what := "generated output differs between runs"
				if (res.digest == "fail") != (first.digest == "fail") {
					what = "generation succeeds in one run and fails in another"
				} else if strings.Contains(res.digest, "tree=") && strings.Contains(first.digest, "tree=") && strings.Fields(res.digest)[1] == strings.Fields(first.digest)[1] {
					what = "the request handed to plugins differs between runs (beyond id numbering)"
				}
				c.Violation(i, what+" ("+how+")", "nondeterministic", det(extra))
				return false
			}
			return true
		}
		nat := 8
		if c.Tier == "quick" {
			nat = 4
		}
		if planted {
			nat = 12 // the only source of variation for these is the walk order
		}
		for k := 0; k < nat; k++ {
			if !compare(genOnce(mem, root, nil, gopt, outDir), fmt.Sprintf("in-process natural order run %d", k+2), map[string]any{}) {
				return
			}
		}
		n := maxListLen(p)
		orders := factorial(n)
		if n > 6 || orders > 720 {
			orders = 60
		}
		if b := c.ArgInt("orders", 24); orders > b {
			orders = b
		}
		full := true
		for k := 0; k < orders; k++ {
			pl := &orderPlan{k: k*7 + 1, seed: r.Uint64(), full: &full}
			if !compare(genOnce(mem, root, pl.order, gopt, outDir), fmt.Sprintf("forced link order #%d", k), map[string]any{"link_order": pl.used}) {
				return
			}
		}
		c.Count("runs", int64(runs))
		c.Count("link_orders", int64(orders))
		if first.digest == "fail" {
			c.Count("programs_failing_consistently", 1)
		} else {
			c.Count("programs_generated", 1)
			c.Count("files_generated", int64(len(first.paths)))
		}
		// the parent compares this digest across separate processes
		// the digest of the INPUT travels with the digest of the output: if two
		// processes did not even draw the same program, that is a harness fault
		var in []byte
		for _, f := range p.Files {
			in = append(in, f.Path...)
			in = append(in, 0)
			in = append(in, f.Text...)
			in = append(in, 0)
		}
		c.Data(fmt.Sprintf("case/%d", i), fmt.Sprintf("%s input=%016x/%+v", first.digest, core.HashBytes(in), gopt))
		if len(p.Files) > 0 {
			c.Nontrivial(core.HashBytes([]byte(first.digest), []byte(p.Files[0].Text)))
		}
		if i%61 == 0 {
			c.Sample(map[string]any{"index": i, "files": len(p.Files), "runs": runs, "digest": first.digest, "paths": first.paths})
		}
	})
}
