//go:build verif

package idlmon

import (
	"fmt"
	"math"
	"strconv"
	"strings"

	"go.uber.org/thriftrw/compile"
	"verif/harness/core"
)

// Boundary values of C09, as (literal, value) pairs. Values beyond int64 are
// carried as big=true (the literal cannot denote an int64 at all).
type lit struct {
	text string
	v    int64
	big  bool
}

func boundaryLits() []lit {
	var out []lit
	add := func(v int64) {
		out = append(out, lit{text: strconv.FormatInt(v, 10), v: v})
		if v >= 0 {
			out = append(out, lit{text: "0x" + strconv.FormatInt(v, 16), v: v})
			out = append(out, lit{text: "+" + strconv.FormatInt(v, 10), v: v})
		}
	}
	for _, p := range []uint{0, 7, 8, 15, 16, 31, 32, 62} {
		b := int64(1) << p
		if p == 0 {
			b = 0
		}
		for _, d := range []int64{-2, -1, 0, 1, 2} {
			add(b + d)
			add(-b + d)
		}
	}
	// decimal literals with leading zeros stay decimal (no octal reading), also
	// around the boundaries where the two readings fall on different sides
	for _, v := range []int64{7, 8, 10, 127, 128, 177, 200, 32767, 32768, 77777, 2147483647, 2147483648, 17777777777} {
		out = append(out, lit{text: "0" + strconv.FormatInt(v, 10), v: v})
		out = append(out, lit{text: "-00" + strconv.FormatInt(v, 10), v: -v})
	}
	add(math.MaxInt64)
	add(math.MaxInt64 - 1)
	add(math.MinInt64)
	add(math.MinInt64 + 1)
	out = append(out,
		lit{text: "9223372036854775808", big: true},
		lit{text: "-9223372036854775809", big: true},
		lit{text: "0x8000000000000000", big: true},
		lit{text: "0xFFFFFFFFFFFFFFFF", big: true},
		lit{text: "18446744073709551616", big: true},
		lit{text: "0x10000000000000000", big: true},
	)
	return out
}

var c09Lits = boundaryLits()

type intType struct {
	name   string
	lo, hi int64
}

var c09IntTypes = []intType{{"i8", math.MinInt8, math.MaxInt8}, {"byte", math.MinInt8, math.MaxInt8}, {"i16", math.MinInt16, math.MaxInt16}, {"i32", math.MinInt32, math.MaxInt32}, {"i64", math.MinInt64, math.MaxInt64}}

// expectation of one generated program
type c09Case struct {
	text      string
	nonStrict bool
	// verdict: +1 must be accepted, -1 must be rejected, 0 statement is silent
	// (then only "what was accepted is faithful" is checked)
	verdict int
	why     string
	// expected numbers if accepted
	fieldIDs   map[string]int64 // "S.a" -> id
	enumVals   map[string]int64 // "E.A" -> value
	constInts  map[string]int64 // const name -> integer value (after cast)
	constEnums map[string]int64 // const name -> enum item value
}

func c09Build(i uint64, r *core.Rand) c09Case {
	L := c09Lits[int(i)%len(c09Lits)]
	kind := int(i/uint64(len(c09Lits))) % 14
	c := c09Case{fieldIDs: map[string]int64{}, enumVals: map[string]int64{}, constInts: map[string]int64{}, constEnums: map[string]int64{}}
	in := func(lo, hi int64) bool { return !L.big && L.v >= lo && L.v <= hi }
	set := func(ok bool, why string) {
		c.why = why
		if ok {
			c.verdict = 1
		} else {
			c.verdict = -1
		}
	}
	switch kind {
	case 0: // explicit field id, strict
		c.text = fmt.Sprintf("struct S {\n  %s: optional i32 a\n}\n", L.text)
		set(in(1, math.MaxInt16), "field id must be in 1..32767")
		c.fieldIDs["S.a"] = L.v
	case 1: // explicit field id, non-strict (negative allowed)
		c.nonStrict = true
		c.text = fmt.Sprintf("struct S {\n  %s: i32 a\n}\n", L.text)
		set(in(math.MinInt16, math.MaxInt16), "field id must fit 16 bits")
		if !L.big && L.v == 0 {
			c.verdict = 0 // the statement does not say whether id 0 is allowed
		}
		c.fieldIDs["S.a"] = L.v
	case 2: // explicit negative id followed by auto-assigned ones
		c.nonStrict = true
		c.text = fmt.Sprintf("struct S {\n  %s: i32 a\n  i32 b\n  i32 c\n}\n", L.text)
		if L.big || L.v >= 0 {
			// auto ids continue from -1
			set(in(0, math.MaxInt16), "ids must fit 16 bits")
			if !L.big && L.v == 0 {
				c.verdict = 0
			}
			c.fieldIDs["S.a"], c.fieldIDs["S.b"], c.fieldIDs["S.c"] = L.v, -1, -2
		} else {
			set(in(math.MinInt16+2, -1), "explicit and auto-assigned ids must fit 16 bits")
			c.fieldIDs["S.a"], c.fieldIDs["S.b"], c.fieldIDs["S.c"] = L.v, L.v-1, L.v-2
		}
	case 3: // exception / union / args field ids
		switch r.Intn(3) {
		case 0:
			c.text = fmt.Sprintf("exception S {\n  %s: optional string a\n}\n", L.text)
		case 1:
			c.text = fmt.Sprintf("union S {\n  %s: string a\n}\n", L.text)
		default:
			c.text = fmt.Sprintf("struct S {\n  %s: optional string a\n}\nservice V { void f(%s: i32 a) }\n", "1", L.text)
		}
		set(in(1, math.MaxInt16), "field id must be in 1..32767")
		if strings.HasPrefix(c.text, "struct") {
			c.fieldIDs["S.a"] = 1
			c.fieldIDs["V.f.a"] = L.v
		} else {
			c.fieldIDs["S.a"] = L.v
		}
	case 4: // explicit enum value and implicit successor
		c.text = fmt.Sprintf("enum E {\n  A = %s\n  B\n}\n", L.text)
		set(in(math.MinInt32, math.MaxInt32-1), "enum values (explicit and the implicit successor) must fit 32 bits")
		c.enumVals["E.A"], c.enumVals["E.B"] = L.v, L.v+1
	case 5: // explicit enum value, last item
		c.text = fmt.Sprintf("enum E {\n  Z\n  A = %s\n}\n", L.text)
		set(in(math.MinInt32, math.MaxInt32), "enum value must fit 32 bits")
		c.enumVals["E.Z"], c.enumVals["E.A"] = 0, L.v
	case 6: // integer constant of each type
		t := c09IntTypes[r.Intn(len(c09IntTypes))]
		tn := t.name
		pre := ""
		if r.Bool() {
			pre = "typedef " + t.name + " T\n"
			tn = "T"
		}
		c.text = fmt.Sprintf("%sconst %s k = %s\n", pre, tn, L.text)
		set(in(t.lo, t.hi), "constant must fit "+t.name)
		c.constInts["k"] = L.v
	case 7: // integer inside containers / struct literal / default
		t := c09IntTypes[r.Intn(len(c09IntTypes))]
		switch r.Intn(4) {
		case 0:
			c.text = fmt.Sprintf("const list<%s> k = [%s]\n", t.name, L.text)
		case 1:
			c.text = fmt.Sprintf("const map<%s, string> k = {%s: \"x\"}\n", t.name, L.text)
		case 2:
			c.text = fmt.Sprintf("struct S {\n  1: optional %s a = %s\n}\n", t.name, L.text)
		default:
			c.text = fmt.Sprintf("struct S {\n  1: optional %s a\n}\nconst S k = {\"a\": %s}\n", t.name, L.text)
		}
		set(in(t.lo, t.hi), "value must fit "+t.name)
		c.constInts["*"] = L.v
	case 8: // enum constant by number
		c.text = fmt.Sprintf("enum E {\n  ONE = 1\n  FIVE = 5\n  NEG = -2147483648\n  TOP = 2147483647\n}\nconst E k = %s\n", L.text)
		set(!L.big && (L.v == 1 || L.v == 5 || L.v == math.MinInt32 || L.v == math.MaxInt32), "an integer denotes an enum value only if it equals an item's value")
		c.constEnums["k"] = L.v
	case 9: // bool and double from integers
		if r.Bool() {
			c.text = fmt.Sprintf("const bool k = %s\n", L.text)
			set(!L.big && (L.v == 0 || L.v == 1), "only 0 and 1 denote booleans")
		} else {
			c.text = fmt.Sprintf("const double k = %s\n", L.text)
			set(!L.big, "any 64-bit integer literal denotes a double")
		}
	case 10: // duplicates must be rejected
		switch r.Intn(4) {
		case 0:
			c.text = "struct S {\n  1: optional i32 a\n  1: optional i32 b\n}\n"
		case 1:
			c.text = "struct S {\n  1: optional i32 a\n  2: optional i32 a\n}\n"
		case 2:
			c.text = "enum E {\n  A\n  B\n  A\n}\n"
		default:
			c.nonStrict = true
			c.text = fmt.Sprintf("struct S {\n  -1: i32 a\n  i32 b\n  %s: i32 c\n}\n", "-2")
		}
		set(false, "duplicate field id / field name / enum item name")
	case 11: // self definition must be rejected
		switch r.Intn(4) {
		case 0:
			c.text = "const i32 k = k\n"
		case 1:
			c.text = "const i32 a = b\nconst i32 b = a\n"
		case 2:
			c.text = "service V extends V {}\n"
		default:
			c.text = "service A extends B {}\nservice B extends A {}\n"
		}
		set(false, "a constant or service defined in terms of itself")
	case 12: // auto ids only, many fields (non-strict)
		c.nonStrict = true
		n := int(L.v%6+6) % 6
		if L.big {
			n = 3
		}
		n += 1
		var sb strings.Builder
		sb.WriteString("struct S {\n")
		for k := 0; k < n; k++ {
			fmt.Fprintf(&sb, "  i32 f%d\n", k)
			c.fieldIDs[fmt.Sprintf("S.f%d", k)] = int64(-1 - k)
		}
		sb.WriteString("}\n")
		c.text = sb.String()
		set(true, "auto-assigned ids")
	default: // explicit negative ids interleaved with auto ones, uniqueness
		c.nonStrict = true
		a := -int64(r.Range(1, 5))
		b := -int64(r.Range(1, 8))
		c.text = fmt.Sprintf("struct S {\n  %d: i32 a\n  i32 x\n  %d: i32 b\n  i32 y\n}\n", a, b)
		ids := map[int64]bool{a: true}
		ok := true
		x := a - 1
		if ids[x] {
			ok = false
		}
		ids[x] = true
		if ids[b] {
			ok = false
		}
		ids[b] = true
		y := b - 1
		if ids[y] {
			ok = false
		}
		set(ok, "field ids must be unique")
		c.fieldIDs["S.a"], c.fieldIDs["S.x"], c.fieldIDs["S.b"], c.fieldIDs["S.y"] = a, x, b, y
	}
	return c
}

func constIntOf(v compile.ConstantValue) (int64, bool) {
	switch c := v.(type) {
	case compile.ConstantInt:
		return int64(c), true
	case compile.ConstantList:
		if len(c) == 1 {
			return constIntOf(c[0])
		}
	case compile.ConstantSet:
		if len(c) == 1 {
			return constIntOf(c[0])
		}
	case compile.ConstantMap:
		if len(c) == 1 {
			return constIntOf(c[0].Key)
		}
	case *compile.ConstantStruct:
		if f, ok := c.Fields["a"]; ok {
			return constIntOf(f)
		}
	case compile.ConstReference:
		return constIntOf(c.Target.Value)
	}
	return 0, false
}

// C09 child.
func C09(c *core.Child) {
	c.Loop(func(i uint64, r *core.Rand) {
		cs := c09Build(i, r)
		c.DumpCase(map[string]any{"text": cs.text, "non_strict": cs.nonStrict})
		c.Count("cases", 1)
		fs := &MemFS{Root: "/sandbox", Files: map[string][]byte{"/sandbox/idl/n.thrift": []byte(cs.text)}}
		det := map[string]any{"text": cs.text, "non_strict": cs.nonStrict, "rule": cs.why}
		var m *compile.Module
		var err error
		pan := ""
		func() {
			defer func() {
				if p := recover(); p != nil {
					pan = fmt.Sprint(p)
				}
			}()
			opts := []compile.Option{compile.Filesystem(fs)}
			if cs.nonStrict {
				opts = append(opts, compile.NonStrict())
			}
			m, err = compile.Compile("/sandbox/idl/n.thrift", opts...)
		}()
		if pan != "" {
			c.Violation(i, "compile panics: "+pan, "panic:compile", det)
			return
		}
		c.Nontrivial(core.HashBytes([]byte(cs.text), []byte{byte(cs.verdict + 1)}))
		if err != nil {
			c.Count("rejected", 1)
			if cs.verdict == 1 {
				det["error"] = err.Error()
				c.Violation(i, "a program whose numbers are all in range is rejected: "+oneLine(err.Error()), "reject", det)
			}
			return
		}
		c.Count("accepted", 1)
		if cs.verdict == -1 {
			c.Violation(i, "an ill-formed program is accepted ("+cs.why+"): "+oneLine(cs.text), "accept:"+cs.why, det)
			return
		}
		// accepted: every number must be the one written
		bad := func(what string) { c.Violation(i, what+" in: "+oneLine(cs.text), "wrong-number", det) }
		for key, want := range cs.fieldIDs {
			parts := strings.Split(key, ".")
			var fg compile.FieldGroup
			if len(parts) == 2 {
				if s, ok := m.Types[parts[0]].(*compile.StructSpec); ok {
					fg = s.Fields
				}
			} else if svc := m.Services[parts[0]]; svc != nil && svc.Functions[parts[1]] != nil {
				fg = compile.FieldGroup(svc.Functions[parts[1]].ArgsSpec)
			}
			f, ferr := fg.FindByName(parts[len(parts)-1])
			if ferr != nil {
				bad("field " + key + " missing")
				continue
			}
			if int64(f.ID) != want {
				bad(fmt.Sprintf("field %s has id %d, the source says %d", key, f.ID, want))
			}
		}
		for key, want := range cs.enumVals {
			parts := strings.Split(key, ".")
			e, ok := m.Types[parts[0]].(*compile.EnumSpec)
			if !ok {
				bad("enum " + parts[0] + " missing")
				continue
			}
			it, ok := e.LookupItem(parts[1])
			if !ok || int64(it.Value) != want {
				bad(fmt.Sprintf("enum item %s has value %v, the source says %d", key, it, want))
			}
		}
		for name, want := range cs.constInts {
			var v compile.ConstantValue
			if name == "*" {
				if k, ok := m.Constants["k"]; ok {
					v = k.Value
				} else if s, ok := m.Types["S"].(*compile.StructSpec); ok && len(s.Fields) > 0 {
					v = s.Fields[0].Default
				}
			} else if k, ok := m.Constants[name]; ok {
				v = k.Value
			}
			got, ok := constIntOf(v)
			if !ok || got != want {
				bad(fmt.Sprintf("integer constant is %v (%T), the source says %d", v, v, want))
			}
		}
		for name, want := range cs.constEnums {
			k := m.Constants[name]
			if k == nil {
				continue
			}
			ref, ok := k.Value.(compile.EnumItemReference)
			if !ok || int64(ref.Item.Value) != want {
				bad(fmt.Sprintf("enum constant is %v, the source says %d", k.Value, want))
			}
		}
		if i%211 == 0 {
			c.Sample(map[string]any{"index": i, "text": cs.text, "non_strict": cs.nonStrict, "expected": map[int]string{1: "accept", -1: "reject", 0: "either"}[cs.verdict], "rule": cs.why})
		}
	})
}
