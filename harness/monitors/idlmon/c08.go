//go:build verif

package idlmon

import (
	"fmt"
	"os"
	"path/filepath"
	"runtime/debug"
	"strings"

	"go.uber.org/thriftrw/compile"
	"go.uber.org/thriftrw/gen"
	"verif/harness/core"
	"verif/harness/idlm"
)

// hostile program = files + root
type fileSet struct {
	files map[string]string // path relative to /sandbox
	root  string
	what  string
}

func single(text, what string) fileSet {
	return fileSet{files: map[string]string{"idl/h.thrift": text}, root: "idl/h.thrift", what: what}
}

func wrapT(r *core.Rand, inner string) string {
	switch r.Intn(6) {
	case 0:
		return "list<" + inner + ">"
	case 1:
		return "set<" + inner + ">"
	case 2:
		return "map<string, " + inner + ">"
	case 3:
		return "map<" + inner + ", i32>"
	}
	return inner
}

// cycleProgram builds a reference cycle of the given kind and length.
func cycleProgram(r *core.Rand, kind, L int) fileSet {
	var sb strings.Builder
	n := func(p string, i int) string { return fmt.Sprintf("%s%d", p, (i%L)+1) }
	switch kind {
	case 0: // typedef -> typedef (optionally through containers)
		for i := 0; i < L; i++ {
			fmt.Fprintf(&sb, "typedef %s %s\n", wrapT(r, n("T", i+1)), n("T", i))
		}
		return single(sb.String(), fmt.Sprintf("typedef cycle of length %d", L))
	case 1: // const -> const
		types := []string{"i32", "i64", "double", "list<i32>", "map<string,i32>", "string"}
		for i := 0; i < L; i++ {
			t := types[r.Intn(len(types))]
			ref := n("k", i+1)
			switch {
			case strings.HasPrefix(t, "list"):
				ref = "[" + ref + "]"
			case strings.HasPrefix(t, "map"):
				ref = "{\"a\": " + ref + "}"
			}
			fmt.Fprintf(&sb, "const %s %s = %s\n", t, n("k", i), ref)
		}
		return single(sb.String(), fmt.Sprintf("constant cycle of length %d", L))
	case 2: // const <-> struct default
		for i := 0; i < L; i++ {
			fmt.Fprintf(&sb, "struct %s {\n  1: optional %s f = %s\n}\nconst %s %s = {}\n", n("S", i), n("S", i+1), n("k", i+1), n("S", i), n("k", i))
		}
		return single(sb.String(), fmt.Sprintf("constant <-> struct default cycle of length %d", L))
	case 3: // struct default nesting cycle
		for i := 0; i < L; i++ {
			lit := "{}"
			if r.Bool() {
				lit = "{\"f\": {}}"
			}
			fmt.Fprintf(&sb, "struct %s {\n  1: optional %s f = %s\n}\n", n("S", i), n("S", i+1), lit)
		}
		return single(sb.String(), fmt.Sprintf("struct default nesting cycle of length %d", L))
	case 4: // service extends cycle
		for i := 0; i < L; i++ {
			fmt.Fprintf(&sb, "service %s extends %s {\n  void f%d()\n}\n", n("V", i), n("V", i+1), i)
		}
		return single(sb.String(), fmt.Sprintf("service inheritance cycle of length %d", L))
	case 5: // include loop with cross references
		fs := fileSet{files: map[string]string{}, root: "idl/f1.thrift", what: fmt.Sprintf("include loop of length %d", L)}
		for i := 0; i < L; i++ {
			next := (i+1)%L + 1
			txt := fmt.Sprintf("include \"./f%d.thrift\"\n", next)
			switch r.Intn(4) {
			case 0:
				txt += fmt.Sprintf("struct S%d {\n  1: optional f%d.S%d x\n}\n", i+1, next, next)
			case 1:
				txt += fmt.Sprintf("typedef f%d.S%d S%d\n", next, next, i+1)
			case 2:
				txt += fmt.Sprintf("struct S%d {}\nservice V%d extends f%d.V%d {}\n", i+1, i+1, next, next)
			default:
				txt += fmt.Sprintf("struct S%d {}\nconst i32 k%d = f%d.k%d\n", i+1, i+1, next, next)
			}
			if !strings.Contains(txt, fmt.Sprintf("struct S%d", i+1)) && !strings.Contains(txt, fmt.Sprintf("S%d\n", i+1)) {
				txt += fmt.Sprintf("struct S%d {}\n", i+1)
			}
			if !strings.Contains(txt, fmt.Sprintf("service V%d", i+1)) {
				txt += fmt.Sprintf("service V%d {}\n", i+1)
			}
			if !strings.Contains(txt, fmt.Sprintf("k%d =", i+1)) {
				txt += fmt.Sprintf("const i32 k%d = %d\n", i+1, i)
			}
			fs.files[fmt.Sprintf("idl/f%d.thrift", i+1)] = txt
		}
		return fs
	case 6: // self include
		return fileSet{files: map[string]string{"idl/me.thrift": "include \"./me.thrift\"\nstruct S {\n  1: optional me.S s\n}\nconst i32 k = me.k\n"}, root: "idl/me.thrift", what: "self include"}
	case 7: // required struct nesting cycle (a valid program)
		for i := 0; i < L; i++ {
			fmt.Fprintf(&sb, "struct %s {\n  1: required %s f\n}\n", n("S", i), wrapT(r, n("S", i+1)))
		}
		return single(sb.String(), fmt.Sprintf("required struct nesting cycle of length %d", L))
	case 8: // union / exception nesting cycle
		for i := 0; i < L; i++ {
			kw := []string{"union", "exception"}[r.Intn(2)]
			fmt.Fprintf(&sb, "%s %s {\n  1: optional %s f\n}\n", kw, n("U", i), wrapT(r, n("U", i+1)))
		}
		return single(sb.String(), fmt.Sprintf("union/exception nesting cycle of length %d", L))
	case 10: // a struct's default contains the struct itself inside a container
		for i := 0; i < L; i++ {
			t, lit := "", ""
			switch r.Intn(4) {
			case 0:
				t, lit = "list<"+n("S", i+1)+">", "[{}]"
			case 1:
				t, lit = "map<string, "+n("S", i+1)+">", "{\"a\": {}}"
			case 2:
				t, lit = "set<"+n("S", i+1)+">", "[{}, {}]"
			default:
				t, lit = "list<list<"+n("S", i+1)+">>", "[[{}]]"
			}
			fmt.Fprintf(&sb, "struct %s {\n  1: optional %s kids = %s\n}\n", n("S", i), t, lit)
		}
		return single(sb.String(), fmt.Sprintf("struct default containing its own struct inside a container, cycle of length %d", L))
	case 11: // service inheritance cycle across an include loop
		fs := fileSet{files: map[string]string{}, root: "idl/f1.thrift", what: fmt.Sprintf("service inheritance cycle across an include loop of length %d", L)}
		for i := 0; i < L; i++ {
			next := (i+1)%L + 1
			if L == 1 {
				fs.files["idl/f1.thrift"] = "include \"./f1.thrift\"\nservice V1 extends f1.V1 {}\n"
				break
			}
			fs.files[fmt.Sprintf("idl/f%d.thrift", i+1)] = fmt.Sprintf("include \"./f%d.thrift\"\nservice V%d extends f%d.V%d {\n  void m%d()\n}\n", next, i+1, next, next, i)
		}
		return fs
	case 9: // typedef cycle closed through a struct default / constant
		fmt.Fprintf(&sb, "typedef S T\nstruct S {\n  1: optional T t = {\"t\": {}}\n}\nconst T k = {\"t\": k}\n")
		return single(sb.String(), "typedef/struct/constant knot")
	}
	return single("", "empty")
}

var wrongKind = []string{
	"const i32 k = 1\nstruct S {\n  1: optional k x\n}\n",
	"service V {}\nstruct S {\n  1: optional V x\n}\n",
	"enum E { A }\nstruct S {\n  1: optional E.A x\n}\n",
	"struct S {}\nconst i32 k = S\n",
	"struct S {}\nservice V extends S {}\n",
	"struct S {}\nservice V {\n  void f() throws (1: S e)\n}\n",
	"typedef X E\nexception X {}\nservice V {\n  void f() throws (1: E e)\n}\n",
	"union U {\n  1: required i32 a\n}\n",
	"union U {\n  1: i32 a = 5\n}\n",
	"service V {\n  oneway i32 f()\n}\n",
	"service V {\n  oneway void f() throws (1: X e)\n}\nexception X {}\n",
	"struct S {\n  1: optional i32 a (go.tag = \"a:b:\\\"c\")\n}\n",
	"struct S {\n  1: optional i32 a (go.tag = \"json\")\n}\n",
	"struct S {\n  1: optional list<i32> (go.type = \"slice\") a\n}\n",
	"struct S {\n  1: optional set<i32> (go.type = \"map\") a\n}\n",
	"struct S {\n  1: optional i32 a (go.name = \"lower\")\n}\n",
	"struct S {\n  1: optional i32 a (go.name = \"With_Underscore\")\n}\n",
	"struct S {\n  1: optional i32 a (go.name = \"\")\n}\n",
	"struct S {\n  1: optional i32 a (x = \"1\", x = \"2\")\n}\n",
	"struct S {\n  1: optional i32 a (go.label = \"b\")\n  2: optional i32 b\n}\n",
	"enum E {\n  A (go.label = \"x\")\n  B (go.label = \"x\")\n}\n",
	"struct S {\n  1: optional i32 a = \"str\"\n}\n",
	"const map<i32,i32> k = {1: 2, \"x\": 3}\n",
	"const S k = {\"nope\": 1}\nstruct S {}\n",
	"const S k = {1: 1}\nstruct S {}\n",
	"const list<S> k = [{}, {\"a\": []}]\nstruct S {\n  1: optional list<S> a\n}\n",
	"struct S {\n  1: required binary b = \"x\"\n}\n",
	"const binary k = \"abc\"\n",
	"const set<list<i32>> k = [[1], [1], []]\n",
	"const map<map<i32,i32>, set<double>> k = {{1: 2}: [1.5, 1.5]}\n",
	"include \"missing.thrift\"\n",
	"include \"../../../../../../etc/passwd\"\n",
	"include t \"./h.thrift\"\n",
	"include \"./with-dash.thrift\"\n",
	"namespace go a.b-c\nstruct S {}\n",
	"struct S {\n  1: optional i32 ToWire\n  2: optional i32 String\n  3: optional i32 Equals\n}\n",
	"struct S {\n  1: optional i32 a\n  2: optional i32 A\n}\n",
	"struct s {}\nstruct S {}\n",
	"enum E { A, a }\n",
	"const i32 Foo_Bar = 1\nconst i32 FooBar = 2\n",
	"typedef i32 ID\ntypedef i32 Id\n",
	"exception E {\n  1: optional string ErrorName\n  2: optional string Error\n}\n",
	"struct S {\n  1: optional i32 getA\n  2: optional i32 a\n  3: optional i32 isSetA\n}\n",
	"service S {\n  void f(1: i32 a (go.name = \"Count\"))\n}\n",
	"service S {\n  void f(1: i32 a (go.name))\n}\n",
	"service S {\n  void f(1: i32 a (go.name = \"\"))\n}\n",
	"exception E {}\nservice S {\n  void f() throws (1: E e (go.name))\n}\n",
	"service S {\n  void f() (go.name)\n}\n",
	"service S {\n} (go.name)\n",
	"struct S {\n} (go.name)\n",
	"enum E {\n A (go.name)\n}\n",
	"enum E {\n A\n} (go.name)\n",
	"typedef i32 T (go.name)\n",
	"struct S {\n  1: optional i32 a (go.name)\n}\n",
	"union U {\n  1: optional i32 a (go.name, go.label, go.tag)\n}\n",
	"struct S {\n  1: optional set<i32> (go.type) a\n}\n",
	"enum E { A = 1, B = 1, C = 2 }\n",
}

func deepProgram(r *core.Rand, depth int) fileSet {
	switch r.Intn(4) {
	case 0:
		t := "i32"
		for k := 0; k < depth; k++ {
			t = "list<" + t + ">"
		}
		return single("typedef "+t+" Deep\n", fmt.Sprintf("type nesting depth %d", depth))
	case 1:
		v := "1"
		t := "i32"
		for k := 0; k < depth; k++ {
			v = "[" + v + "]"
			t = "list<" + t + ">"
		}
		return single("const "+t+" k = "+v+"\n", fmt.Sprintf("constant nesting depth %d", depth))
	case 2:
		var sb strings.Builder
		for k := 0; k < depth; k++ {
			fmt.Fprintf(&sb, "typedef T%d T%d\n", k+1, k)
		}
		fmt.Fprintf(&sb, "typedef i32 T%d\nconst T0 k = 5\n", depth)
		return single(sb.String(), fmt.Sprintf("typedef chain of length %d", depth))
	default:
		var sb strings.Builder
		for k := 0; k < depth; k++ {
			fmt.Fprintf(&sb, "service V%d extends V%d {}\n", k, k+1)
		}
		fmt.Fprintf(&sb, "service V%d {}\n", depth)
		return single(sb.String(), fmt.Sprintf("service chain of length %d", depth))
	}
}

func runCompileGen(fsys *MemFS, root string, nonStrict bool, outDir string) (stage, outcome, pan string) {
	defer func() {
		if p := recover(); p != nil {
			pan = fmt.Sprint(p) + "\n" + string(debug.Stack())
		}
	}()
	stage = "compile"
	opts := []compile.Option{compile.Filesystem(fsys)}
	if nonStrict {
		opts = append(opts, compile.NonStrict())
	}
	m, err := compile.Compile(filepath.Join(fsys.Root, root), opts...)
	if err != nil {
		return stage, "error", ""
	}
	if m == nil {
		return stage, "neither module nor error", ""
	}
	stage = "generate"
	err = gen.Generate(m, &gen.Options{OutputDir: outDir, PackagePrefix: "example.com/gen", ThriftRoot: fsys.Root, NoVersionCheck: true})
	if err != nil {
		return stage, "error", ""
	}
	return stage, "ok", ""
}

// C08 child.
func C08(c *core.Child) {
	outDir := c.Arg("out", "/var/tmp/c08") + ".gen"
	defer os.RemoveAll(outDir)
	c.Loop(func(i uint64, r *core.Rand) {
		var fs fileSet
		switch c.Stream {
		case "bytes":
			fs = single(string(r.Bytes(r.Intn(120))), "random bytes")
		case "tokmut":
			o := idlm.SemOpts{MaxFiles: 3, MaxDefs: 5, Services: true, Constants: true, Defaults: true, CyclicIncludes: r.Bool(), GoAnns: true, Redact: true}
			p := idlm.GenProgram(r, o)
			p.RenderAll(r, idlm.PlainLayout)
			fs = fileSet{files: map[string]string{}, root: p.Files[0].Path, what: "token-mutated valid program"}
			victim := r.Intn(len(p.Files))
			for k, f := range p.Files {
				t := f.Text
				if k == victim {
					t = string(mutateText([]byte(t), r))
				}
				fs.files[f.Path] = t
			}
		case "valid":
			o := idlm.SemOpts{MaxFiles: 3, MaxDefs: 5, Services: true, Constants: true, Defaults: true, CyclicIncludes: r.Chance(1, 4), GoAnns: true, Redact: true}
			p := idlm.GenProgram(r, o)
			p.RenderAll(r, idlm.PlainLayout)
			fs = fileSet{files: map[string]string{}, root: p.Files[0].Path, what: "valid program (possibly not generatable)"}
			for _, f := range p.Files {
				fs.files[f.Path] = f.Text
			}
		case "cycles":
			kind := int(i) % 12
			L := int(i/12)%5 + 1
			fs = cycleProgram(r, kind, L)
		case "wrongkind":
			fs = single(wrongKind[int(i)%len(wrongKind)], "wrong-kind reference / bad annotation / name clash #"+fmt.Sprint(int(i)%len(wrongKind)))
		case "deep":
			fs = deepProgram(r, []int{10, 50, 100, 250}[int(i)%4])
		}
		c.DumpCase(map[string]any{"files": fs.files, "root": fs.root, "what": fs.what})
		c.Count("cases", 1)
		mem := &MemFS{Root: "/sandbox", Files: map[string][]byte{}}
		for p, t := range fs.files {
			mem.Files[filepath.Join(mem.Root, p)] = []byte(t)
		}
		for _, ns := range []bool{false, true} {
			stage, outcome, pan := runCompileGen(mem, fs.root, ns, outDir)
			os.RemoveAll(outDir)
			c.Count("outcome_"+stage+"_"+strings.ReplaceAll(outcome, " ", "_"), 1)
			if pan != "" {
				c.Violation(i, fmt.Sprintf("%s panics on %s: %s", stage, fs.what, strings.SplitN(pan, "\n", 2)[0]), "panic:"+topFrame(pan), map[string]any{"files": fs.files, "root": fs.root, "non_strict": ns, "panic": pan})
				break
			}
			if outcome == "neither module nor error" {
				c.Violation(i, "compile returned neither a module nor an error", "", map[string]any{"files": fs.files})
			}
		}
		h := []byte(fs.what)
		for _, t := range fs.files {
			h = append(h, t...)
		}
		if len(h) > 20 {
			c.Nontrivial(core.HashBytes(h))
		}
		if i%503 == 0 {
			c.Sample(map[string]any{"stream": c.Stream, "index": i, "what": fs.what, "root_text_head": head(fs.files[fs.root], 300)})
		}
	})
}

func topFrame(st string) string {
	for _, l := range strings.Split(st, "\n") {
		if strings.HasPrefix(l, "go.uber.org/thriftrw") {
			if k := strings.Index(l, "("); k > 0 {
				return l[:k]
			}
			return l
		}
	}
	return ""
}
