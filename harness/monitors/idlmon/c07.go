//go:build verif

package idlmon

import (
	"fmt"
	"path"
	"runtime/debug"
	"sort"
	"strings"

	"go.uber.org/thriftrw/compile"
	"verif/harness/core"
	"verif/harness/idlm"
)

type compileResult struct {
	lines    []string
	problems []string
	err      error
	pan      string
}

func doCompile(fs *MemFS, rootRel string, order compile.VerifLinkOrder, nonStrict bool) (res compileResult) {
	defer func() {
		if p := recover(); p != nil {
			res.pan = fmt.Sprint(p) + "\n" + string(debug.Stack())
		}
	}()
	opts := []compile.Option{compile.Filesystem(fs)}
	if nonStrict {
		opts = append(opts, compile.NonStrict())
	}
	var m *compile.Module
	var err error
	if order != nil {
		m, err = compile.CompileWithLinkOrder(path.Join(fs.Root, rootRel), order, opts...)
	} else {
		m, err = compile.Compile(path.Join(fs.Root, rootRel), opts...)
	}
	if err != nil {
		res.err = err
		return
	}
	res.lines, res.problems = DumpModules(m, fs)
	return
}

func factorial(n int) int {
	f := 1
	for i := 2; i <= n; i++ {
		f *= i
		if f > 1000000 {
			return f
		}
	}
	return f
}

// kthPerm returns the k-th permutation (factorial number system) of names.
func kthPerm(names []string, k int) []string {
	pool := append([]string{}, names...)
	out := make([]string, 0, len(names))
	for n := len(pool); n > 0; n-- {
		f := factorial(n - 1)
		i := (k / f) % n
		k %= f
		out = append(out, pool[i])
		pool = append(pool[:i], pool[i+1:]...)
	}
	return out
}

func firstDiff(a, b []string) string {
	i, j := 0, 0
	for i < len(a) && j < len(b) {
		if a[i] == b[j] {
			i++
			j++
			continue
		}
		if a[i] < b[j] {
			return "expected but missing: " + a[i] + "   |   got instead (next line): " + b[j]
		}
		return "unexpected: " + b[j] + "   |   expected (next line): " + a[i]
	}
	if i < len(a) {
		return "expected but missing: " + a[i]
	}
	if j < len(b) {
		return "unexpected: " + b[j]
	}
	return ""
}

func programText(p *idlm.Program) map[string]string {
	m := map[string]string{}
	for _, f := range p.Files {
		m[f.Path] = f.Text
	}
	return m
}

// orderRecorder remembers the orders actually used, for replay files.
type usedOrder struct {
	Module, Kind string
	Names        []string
}

// C07 child: one case = one program under many orders.
func C07(c *core.Child) {
	c.Loop(func(i uint64, r *core.Rand) {
		switch c.Stream {
		case "safe":
			o := idlm.SemOpts{MaxFiles: 4, MaxDefs: 5, Services: true, Constants: true, Defaults: true, Dirs: true, CyclicIncludes: true, DottedLocal: true, TypedefZoo: r.Chance(1, 3), ManyTypes: r.Chance(1, 4)}
			o.Off = offFromArgs(c)
			p := idlm.GenProgram(r, o)
			lay := idlm.PlainLayout
			if r.Chance(1, 3) {
				lay = idlm.WildLayout
			}
			p.RenderAll(r, lay)
			c.DumpCase(map[string]any{"files": programText(p)})
			c07Safe(c, i, r, p)
		case "probe":
			c07Probe(c, i)
		case "invalid":
			o := idlm.SemOpts{MaxFiles: 3, MaxDefs: 4, Services: true, Constants: true, Defaults: true, CyclicIncludes: true}
			o.Off = offFromArgs(c)
			p := idlm.GenProgram(r, o)
			what := idlm.MakeInvalid(p, r)
			p.RenderAll(r, idlm.PlainLayout)
			c.DumpCase(map[string]any{"files": programText(p), "planted": what})
			c07Invalid(c, i, r, p, what)
		}
	})
}

func offFromArgs(c *core.Child) map[string]bool {
	off := map[string]bool{}
	for _, f := range strings.Split(c.Arg("off", ""), ",") {
		if f != "" {
			off[f] = true
		}
	}
	return off
}

// orderPlan enumerates link orders: run k uses the k-th permutation of every
// (module, kind) list, so that each list with n <= 6 entries sees all n!
// orders within max(n!) runs; longer lists get pseudo-random orders.
type orderPlan struct {
	k    int
	seed uint64
	used []usedOrder
	full *bool
}

func (pl *orderPlan) order(module, kind string, names []string) []string {
	var out []string
	if len(names) <= 6 {
		out = kthPerm(names, pl.k%factorial(len(names)))
	} else {
		rr := core.NewRand(pl.seed, module+kind, uint64(pl.k))
		out = make([]string, len(names))
		for i, j := range rr.Perm(len(names)) {
			out[i] = names[j]
		}
		*pl.full = false
	}
	pl.used = append(pl.used, usedOrder{module, kind, out})
	return out
}

func maxListLen(p *idlm.Program) int {
	m := 1
	for _, f := range p.Files {
		nt, nc, ns, ni := 0, 0, 0, 0
		for _, h := range f.Headers {
			if h.Kind == "include" {
				ni++
			}
		}
		for _, d := range f.Defs {
			switch d.(type) {
			case *idlm.Constant:
				nc++
			case *idlm.Service:
				ns++
			default:
				nt++
			}
		}
		for _, n := range []int{nt, nc, ns, ni} {
			if n > m {
				m = n
			}
		}
	}
	return m
}

func c07Safe(c *core.Child, i uint64, r *core.Rand, p *idlm.Program) {
	c.Count("cases", 1)
	c.Count("programs", 1)
	want := p.Dump()
	fs := NewMemFS(p)
	root := p.Files[0].Path
	det := func(extra map[string]any) map[string]any {
		d := map[string]any{"files": programText(p), "root": root}
		for k, v := range extra {
			d[k] = v
		}
		return d
	}
	check := func(res compileResult, how string, extra map[string]any) bool {
		if res.pan != "" {
			extra["panic"] = res.pan
			c.Violation(i, "compile panics ("+how+"): "+strings.SplitN(res.pan, "\n", 2)[0], "panic:compile", det(extra))
			return false
		}
		if res.err != nil {
			extra["error"] = res.err.Error()
			c.Violation(i, "a valid program is rejected ("+how+"): "+oneLine(res.err.Error()), "reject", det(extra))
			return false
		}
		if len(res.problems) > 0 {
			extra["problems"] = res.problems
			c.Violation(i, "compiled module graph is inconsistent ("+how+"): "+res.problems[0], "", det(extra))
			return false
		}
		if d := firstDiff(want, res.lines); d != "" {
			extra["difference"] = d
			c.Violation(i, "compiled program differs from what the source denotes ("+how+"): "+d, "", det(extra))
			return false
		}
		return true
	}
	// natural order (map iteration), repeated
	nat := 6
	for k := 0; k < nat; k++ {
		if !check(doCompile(fs, root, nil, false), fmt.Sprintf("natural order, run %d", k), map[string]any{}) {
			return
		}
	}
	c.Count("natural_runs", int64(nat))
	// hooked orders
	n := maxListLen(p)
	runs := factorial(n)
	full := true
	if n > 6 || runs > 720 {
		runs = 200
	}
	budget := c.ArgInt("orders", 720)
	if runs > budget {
		runs = budget
		full = false
	}
	for k := 0; k < runs; k++ {
		pl := &orderPlan{k: k, seed: r.Uint64(), full: &full}
		res := doCompile(fs, root, pl.order, false)
		if !check(res, fmt.Sprintf("forced link order #%d", k), map[string]any{"link_order": pl.used}) {
			return
		}
	}
	c.Count("hooked_orders", int64(runs))
	if full {
		c.Count("programs_all_orders_enumerated", 1)
	}
	// definition permutations in the files
	for k := 0; k < 6; k++ {
		for _, f := range p.Files {
			perm := r.Perm(len(f.Defs))
			nd := make([]idlm.Def, len(f.Defs))
			for a, b := range perm {
				nd[a] = f.Defs[b]
			}
			f.Defs = nd
		}
		p.RenderAll(r, idlm.PlainLayout)
		fs2 := NewMemFS(p)
		if !check(doCompile(fs2, root, nil, false), fmt.Sprintf("definitions permuted, variant %d", k), map[string]any{"files_permuted": programText(p)}) {
			return
		}
	}
	c.Count("definition_permutations", 6)
	nd := 0
	cross := 0
	for _, f := range p.Files {
		nd += len(f.Defs)
	}
	for _, l := range want {
		if strings.Contains(l, " include ") {
			cross++
		}
	}
	if nd >= 3 {
		c.Nontrivial(core.HashBytes([]byte(strings.Join(want, "\n"))))
	}
	if i%40 == 0 {
		c.Sample(map[string]any{"stream": "safe", "index": i, "files": len(p.Files), "definitions": nd, "include_edges": cross, "orders": runs, "root_text_head": head(p.Files[0].Text, 400)})
	}
}

func head(s string, n int) string {
	if len(s) > n {
		return s[:n] + "…"
	}
	return s
}

func oneLine(s string) string {
	s = strings.ReplaceAll(s, "\n", " ")
	if len(s) > 300 {
		s = s[:300]
	}
	return s
}

// c07Invalid: the planted defect must be rejected under every order.
func c07Invalid(c *core.Child, i uint64, r *core.Rand, p *idlm.Program, what string) {
	c.Count("cases", 1)
	c.Count("invalid_programs", 1)
	c.Count("invalid_"+strings.SplitN(what, ":", 2)[0], 1)
	fs := NewMemFS(p)
	root := p.Files[0].Path
	outcomes := map[bool]int{}
	var firstAccept, firstReject string
	try := func(order compile.VerifLinkOrder, how string, used *[]usedOrder) bool {
		res := doCompile(fs, root, order, false)
		if res.pan != "" {
			c.Violation(i, "compile panics on an invalid program ("+how+"): "+strings.SplitN(res.pan, "\n", 2)[0], "panic:compile", map[string]any{"files": programText(p), "planted": what, "panic": res.pan})
			return false
		}
		ok := res.err == nil
		outcomes[ok]++
		desc := how
		if used != nil {
			b := []string{}
			for _, u := range *used {
				b = append(b, fmt.Sprintf("%s %s %v", path.Base(u.Module), u.Kind, u.Names))
			}
			desc += " " + strings.Join(b, "; ")
		}
		if ok && firstAccept == "" {
			firstAccept = desc
		}
		if !ok && firstReject == "" {
			firstReject = desc + " -> " + oneLine(res.err.Error())
		}
		return true
	}
	for k := 0; k < 4; k++ {
		if !try(nil, fmt.Sprintf("natural order run %d", k), nil) {
			return
		}
	}
	n := maxListLen(p)
	runs := factorial(n)
	if n > 6 || runs > 720 {
		runs = 200
	}
	if b := c.ArgInt("orders", 720); runs > b {
		runs = b
	}
	full := true
	for k := 0; k < runs; k++ {
		pl := &orderPlan{k: k, seed: r.Uint64(), full: &full}
		if !try(pl.order, fmt.Sprintf("forced order #%d:", k), &pl.used) {
			return
		}
	}
	c.Count("hooked_orders", int64(runs))
	if outcomes[true] > 0 && outcomes[false] > 0 {
		c.Violation(i, fmt.Sprintf("whether an invalid program (%s) compiles depends on the resolution order: accepted %d times, rejected %d times", what, outcomes[true], outcomes[false]), "order-dependent-acceptance", map[string]any{"files": programText(p), "planted": what, "accepted_under": firstAccept, "rejected_under": firstReject})
	} else if outcomes[true] > 0 {
		c.Violation(i, fmt.Sprintf("an invalid program (%s) is accepted under every order", what), "accept-invalid:"+strings.SplitN(what, ":", 2)[0], map[string]any{"files": programText(p), "planted": what})
	}
	c.Nontrivial(core.HashBytes([]byte(what), []byte(p.Files[0].Text)))
	_ = sort.Strings
}

// c07Probe runs the fixed minimal input of an open finding under every link
// order; it reports (under the finding's own signature) only if the defect
// still shows.
func c07Probe(c *core.Child, i uint64) {
	text := `struct A {1: optional B b}
struct B {1: optional C c}
struct C {1: optional A a = {"b": {}}}
`
	fs := &MemFS{Root: "/sandbox", Files: map[string][]byte{"/sandbox/idl/probe.thrift": []byte(text)}}
	acc, rej := 0, 0
	firstErr := ""
	for k := 0; k < 6; k++ {
		full := true
		pl := &orderPlan{k: k, full: &full}
		res := doCompile(fs, "idl/probe.thrift", pl.order, false)
		if res.err != nil || res.pan != "" {
			rej++
			if firstErr == "" && res.err != nil {
				firstErr = oneLine(res.err.Error())
			}
		} else {
			acc++
		}
	}
	c.Count("probe_runs", 6)
	if rej > 0 {
		c.Violation(i, fmt.Sprintf("probe KF-C07-1: a valid program with a struct literal default on a type cycle is rejected under %d of 6 link orders (accepted under %d): %s", rej, acc, firstErr), "probe:KF-C07-1", map[string]any{"text": text})
	}
}
