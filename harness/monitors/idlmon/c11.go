//go:build verif

// Package idlmon holds the child-side monitors for the parser and compiler.
package idlmon

import (
	"fmt"
	"math"
	"runtime/debug"
	"strings"

	"go.uber.org/thriftrw/ast"
	"go.uber.org/thriftrw/idl"
	"verif/harness/core"
	"verif/harness/idlm"
)

func annN(as []*ast.Annotation) []*idlm.Node {
	var out []*idlm.Node
	for _, a := range as {
		out = append(out, &idlm.Node{Kind: "Annotation", Attrs: []string{a.Name, a.Value}, Line: a.Line, Col: a.Column})
	}
	return out
}

type conv struct{ info *idl.Info }

func (c conv) typ(t ast.Type) *idlm.Node {
	if t == nil {
		return &idlm.Node{Kind: "Void"}
	}
	p := c.info.Pos(t)
	n := &idlm.Node{Line: p.Line, Col: p.Column}
	switch t := t.(type) {
	case ast.BaseType:
		n.Kind = "BaseType"
		n.Attrs = []string{map[ast.BaseTypeID]string{ast.BoolTypeID: "bool", ast.I8TypeID: "i8", ast.I16TypeID: "i16", ast.I32TypeID: "i32", ast.I64TypeID: "i64", ast.DoubleTypeID: "double", ast.StringTypeID: "string", ast.BinaryTypeID: "binary"}[t.ID]}
		n.Kids = annN(t.Annotations)
	case ast.MapType:
		n.Kind = "MapType"
		n.Kids = append([]*idlm.Node{c.typ(t.KeyType), c.typ(t.ValueType)}, annN(t.Annotations)...)
	case ast.ListType:
		n.Kind = "ListType"
		n.Kids = append([]*idlm.Node{c.typ(t.ValueType)}, annN(t.Annotations)...)
	case ast.SetType:
		n.Kind = "SetType"
		n.Kids = append([]*idlm.Node{c.typ(t.ValueType)}, annN(t.Annotations)...)
	case ast.TypeReference:
		n.Kind = "TypeReference"
		n.Attrs = []string{t.Name}
	default:
		n.Kind = fmt.Sprintf("unknown type %T", t)
	}
	return n
}

func (c conv) cnst(v ast.ConstantValue) *idlm.Node {
	p := c.info.Pos(v)
	n := &idlm.Node{Line: p.Line, Col: p.Column}
	switch v := v.(type) {
	case ast.ConstantInteger:
		n.Kind = "ConstantInteger"
		n.Attrs = []string{fmt.Sprint(int64(v))}
	case ast.ConstantDouble:
		n.Kind = "ConstantDouble"
		n.Attrs = []string{fmt.Sprintf("%x", math.Float64bits(float64(v)))}
	case ast.ConstantBoolean:
		n.Kind = "ConstantBoolean"
		n.Attrs = []string{fmt.Sprint(bool(v))}
	case ast.ConstantString:
		n.Kind = "ConstantString"
		n.Attrs = []string{string(v)}
	case ast.ConstantReference:
		n.Kind = "ConstantReference"
		n.Attrs = []string{v.Name}
	case ast.ConstantList:
		n.Kind = "ConstantList"
		for _, it := range v.Items {
			n.Kids = append(n.Kids, c.cnst(it))
		}
	case ast.ConstantMap:
		n.Kind = "ConstantMap"
		for _, it := range v.Items {
			n.Kids = append(n.Kids, &idlm.Node{Kind: "ConstantMapItem", Line: it.Line, Col: it.Column, Kids: []*idlm.Node{c.cnst(it.Key), c.cnst(it.Value)}})
		}
	default:
		n.Kind = fmt.Sprintf("unknown constant %T", v)
	}
	return n
}

func (c conv) field(f *ast.Field) *idlm.Node {
	id := fmt.Sprint(f.ID)
	if f.IDUnset {
		id = "unset"
	}
	req := "unspecified"
	switch f.Requiredness {
	case ast.Required:
		req = "required"
	case ast.Optional:
		req = "optional"
	}
	n := &idlm.Node{Kind: "Field", Attrs: []string{f.Name, "id:" + id, req, "doc:" + f.Doc}, Line: f.Line, Col: f.Column}
	n.Kids = append(n.Kids, c.typ(f.Type))
	if f.Default != nil {
		n.Kids = append(n.Kids, c.cnst(f.Default))
	}
	n.Kids = append(n.Kids, annN(f.Annotations)...)
	return n
}

// ProgramNode converts thriftrw's AST to the neutral tree.
func ProgramNode(p *ast.Program, info *idl.Info) *idlm.Node {
	c := conv{info}
	root := &idlm.Node{Kind: "Program"}
	for _, h := range p.Headers {
		switch h := h.(type) {
		case *ast.Include:
			root.Kids = append(root.Kids, &idlm.Node{Kind: "Include", Attrs: []string{h.Path, "as:" + h.Name}, Line: h.Line, Col: h.Column})
		case *ast.CppInclude:
			root.Kids = append(root.Kids, &idlm.Node{Kind: "CppInclude", Attrs: []string{h.Path}, Line: h.Line, Col: h.Column})
		case *ast.Namespace:
			root.Kids = append(root.Kids, &idlm.Node{Kind: "Namespace", Attrs: []string{h.Scope, h.Name}, Line: h.Line, Col: h.Column})
		default:
			root.Kids = append(root.Kids, &idlm.Node{Kind: fmt.Sprintf("unknown header %T", h)})
		}
	}
	for _, d := range p.Definitions {
		var n *idlm.Node
		switch d := d.(type) {
		case *ast.Constant:
			n = &idlm.Node{Kind: "Constant", Attrs: []string{d.Name, "doc:" + d.Doc}, Line: d.Line, Col: d.Column, Kids: []*idlm.Node{c.typ(d.Type), c.cnst(d.Value)}}
		case *ast.Typedef:
			n = &idlm.Node{Kind: "Typedef", Attrs: []string{d.Name, "doc:" + d.Doc}, Line: d.Line, Col: d.Column, Kids: append([]*idlm.Node{c.typ(d.Type)}, annN(d.Annotations)...)}
		case *ast.Enum:
			n = &idlm.Node{Kind: "Enum", Attrs: []string{d.Name, "doc:" + d.Doc}, Line: d.Line, Col: d.Column}
			for _, it := range d.Items {
				v := "implicit"
				if it.Value != nil {
					v = fmt.Sprint(*it.Value)
				}
				n.Kids = append(n.Kids, &idlm.Node{Kind: "EnumItem", Attrs: []string{it.Name, v, "doc:" + it.Doc}, Line: it.Line, Col: it.Column, Kids: annN(it.Annotations)})
			}
			n.Kids = append(n.Kids, annN(d.Annotations)...)
		case *ast.Struct:
			kind := "?"
			switch d.Type {
			case ast.StructType:
				kind = "struct"
			case ast.UnionType:
				kind = "union"
			case ast.ExceptionType:
				kind = "exception"
			}
			n = &idlm.Node{Kind: "Struct", Attrs: []string{d.Name, kind, "doc:" + d.Doc}, Line: d.Line, Col: d.Column}
			for _, f := range d.Fields {
				n.Kids = append(n.Kids, c.field(f))
			}
			n.Kids = append(n.Kids, annN(d.Annotations)...)
		case *ast.Service:
			n = &idlm.Node{Kind: "Service", Attrs: []string{d.Name, "doc:" + d.Doc}, Line: d.Line, Col: d.Column}
			for _, fn := range d.Functions {
				fnn := &idlm.Node{Kind: "Function", Attrs: []string{fn.Name, fmt.Sprint("oneway:", fn.OneWay), "doc:" + fn.Doc}, Line: fn.Line, Col: fn.Column}
				for _, p := range fn.Parameters {
					fnn.Kids = append(fnn.Kids, c.field(p))
				}
				fnn.Kids = append(fnn.Kids, &idlm.Node{Kind: "Returns", Kids: []*idlm.Node{c.typ(fn.ReturnType)}})
				ex := &idlm.Node{Kind: "Throws"}
				for _, p := range fn.Exceptions {
					ex.Kids = append(ex.Kids, c.field(p))
				}
				fnn.Kids = append(fnn.Kids, ex)
				fnn.Kids = append(fnn.Kids, annN(fn.Annotations)...)
				n.Kids = append(n.Kids, fnn)
			}
			if d.Parent != nil {
				n.Kids = append(n.Kids, &idlm.Node{Kind: "ServiceReference", Attrs: []string{d.Parent.Name}, Line: d.Parent.Line, Col: d.Parent.Column})
			}
			n.Kids = append(n.Kids, annN(d.Annotations)...)
		default:
			n = &idlm.Node{Kind: fmt.Sprintf("unknown definition %T", d)}
		}
		root.Kids = append(root.Kids, n)
	}
	return root
}

// normalizePositions reconciles two facts about reported positions before the
// trees are compared, and returns how many nodes showed the known defect:
//
//  1. Info.Pos is keyed by value for scalar constants, so equal constants
//     share one entry: a scalar's reported position is accepted when it is the
//     position of some occurrence of an equal constant in the document.
//  2. Open finding KF-C11-1: a constant value that directly follows "=" or
//     the ":" of a map item, and the parent name after "extends", are reported
//     at the position of that preceding token. Such nodes are counted and
//     reported under their own signature; the comparison then continues with
//     the true position so that every other difference is still seen. If the
//     parser reports the true position the node is simply correct.
func normalizePositions(want, got *idlm.Node) (known int) {
	isScalar := func(k string) bool {
		return k == "ConstantInteger" || k == "ConstantDouble" || k == "ConstantBoolean" || k == "ConstantString"
	}
	// key under which Info.Pos shares entries: Go map-key equality of the
	// constant values, so 0.0 and -0.0 are one key
	keyOf := func(n *idlm.Node) string {
		k := n.Kind + "\x00" + strings.Join(n.Attrs, "\x00")
		if n.Kind == "ConstantDouble" && len(n.Attrs) == 1 && n.Attrs[0] == "8000000000000000" {
			k = n.Kind + "\x000"
		}
		return k
	}
	occ := map[string]map[[2]int]bool{}
	alt := map[string]map[[2]int]bool{}
	var collect func(n *idlm.Node)
	collect = func(n *idlm.Node) {
		if isScalar(n.Kind) {
			k := keyOf(n)
			if occ[k] == nil {
				occ[k] = map[[2]int]bool{}
				alt[k] = map[[2]int]bool{}
			}
			occ[k][[2]int{n.Line, n.Col}] = true
			if n.AltLine != 0 {
				alt[k][[2]int{n.AltLine, n.AltCol}] = true
			}
		}
		for _, c := range n.Kids {
			collect(c)
		}
	}
	collect(want)
	var fix func(w, g *idlm.Node)
	fix = func(w, g *idlm.Node) {
		if w == nil || g == nil || w.Kind != g.Kind {
			return
		}
		gp := [2]int{g.Line, g.Col}
		wp := [2]int{w.Line, w.Col}
		if isScalar(g.Kind) {
			k := keyOf(g)
			switch {
			case occ[k][gp]:
				g.Line, g.Col = w.Line, w.Col
			case alt[k][gp]:
				known++
				g.Line, g.Col = w.Line, w.Col
			}
		} else if (strings.HasPrefix(g.Kind, "Constant") && g.Kind != "Constant" || g.Kind == "ServiceReference") && w.AltLine != 0 && gp != wp && gp == [2]int{w.AltLine, w.AltCol} {
			known++
			g.Line, g.Col = w.Line, w.Col
		}
		for i := range w.Kids {
			if i < len(g.Kids) {
				fix(w.Kids[i], g.Kids[i])
			}
		}
	}
	fix(want, got)
	return known
}

// ---- ast.Walk check ------------------------------------------------------------

type visit struct {
	depth  int
	what   string
	parent string
}

func describe(n ast.Node, info *idl.Info) string {
	if n == nil {
		return "<nil>"
	}
	p := info.Pos(n)
	switch n.(type) {
	case ast.ConstantInteger, ast.ConstantDouble, ast.ConstantBoolean, ast.ConstantString:
		// value-keyed positions are ambiguous; identify by value only
		return fmt.Sprintf("%T(%v)", n, n)
	}
	return fmt.Sprintf("%T@%d:%d", n, p.Line, p.Column)
}

type recorder struct {
	info *idl.Info
	out  *[]visit
}

func (r recorder) Visit(w ast.Walker, n ast.Node) ast.Visitor {
	*r.out = append(*r.out, visit{len(w.Ancestors()), describe(n, r.info), describe(w.Parent(), r.info)})
	return r
}

// expectedVisits enumerates the nodes of a program in the order the
// documentation of ast.Walk prescribes (depth first, children in source
// order), from the tree's exported fields only.
func expectedVisits(p *ast.Program, info *idl.Info) []visit {
	var out []visit
	var rec func(n ast.Node, parent ast.Node, depth int)
	anns := func(as []*ast.Annotation, parent ast.Node, depth int) {
		for _, a := range as {
			rec(a, parent, depth)
		}
	}
	rec = func(n ast.Node, parent ast.Node, depth int) {
		out = append(out, visit{depth, describe(n, info), describe(parent, info)})
		d := depth + 1
		switch n := n.(type) {
		case *ast.Program:
			for _, h := range n.Headers {
				rec(h, n, d)
			}
			for _, x := range n.Definitions {
				rec(x, n, d)
			}
		case *ast.Constant:
			rec(n.Type, n, d)
			rec(n.Value, n, d)
		case *ast.Typedef:
			rec(n.Type, n, d)
			anns(n.Annotations, n, d)
		case *ast.Enum:
			for _, it := range n.Items {
				rec(it, n, d)
			}
			anns(n.Annotations, n, d)
		case *ast.EnumItem:
			anns(n.Annotations, n, d)
		case *ast.Struct:
			for _, f := range n.Fields {
				rec(f, n, d)
			}
			anns(n.Annotations, n, d)
		case *ast.Service:
			for _, f := range n.Functions {
				rec(f, n, d)
			}
			anns(n.Annotations, n, d)
		case *ast.Function:
			if n.ReturnType != nil {
				rec(n.ReturnType, n, d)
			}
			for _, f := range n.Parameters {
				rec(f, n, d)
			}
			for _, f := range n.Exceptions {
				rec(f, n, d)
			}
			anns(n.Annotations, n, d)
		case *ast.Field:
			rec(n.Type, n, d)
			if n.Default != nil {
				rec(n.Default, n, d)
			}
			anns(n.Annotations, n, d)
		case ast.BaseType:
			anns(n.Annotations, n, d)
		case ast.MapType:
			rec(n.KeyType, n, d)
			rec(n.ValueType, n, d)
			anns(n.Annotations, n, d)
		case ast.ListType:
			rec(n.ValueType, n, d)
			anns(n.Annotations, n, d)
		case ast.SetType:
			rec(n.ValueType, n, d)
			anns(n.Annotations, n, d)
		case ast.ConstantList:
			for _, it := range n.Items {
				rec(it, n, d)
			}
		case ast.ConstantMap:
			for _, it := range n.Items {
				rec(it, n, d)
			}
		case ast.ConstantMapItem:
			rec(n.Key, n, d)
			rec(n.Value, n, d)
		}
	}
	rec(p, nil, 0)
	return out
}

// C11 child.
func C11(c *core.Child) {
	c.Loop(func(i uint64, r *core.Rand) {
		switch c.Stream {
		case "valid", "plain":
			f := idlm.GenSyntaxFile(r)
			lay := idlm.WildLayout
			if c.Stream == "plain" {
				lay = idlm.PlainLayout
			} else {
				lay.CRLF = r.Chance(1, 5)
				lay.Comments = r.Chance(3, 4)
				lay.Newlines = r.Chance(3, 4)
			}
			f.Render(r.Fork(), lay)
			c.DumpCase(map[string]any{"text": f.Text})
			c11Valid(c, i, f)
		case "bytes":
			var b []byte
			switch r.Intn(3) {
			case 0:
				b = r.Bytes(r.Intn(80))
			default:
				f := idlm.GenSyntaxFile(r)
				f.Render(r.Fork(), idlm.WildLayout)
				b = mutateText([]byte(f.Text), r)
			}
			c.DumpCase(map[string]any{"text": string(b)})
			c11Total(c, i, b)
		}
	})
}

var tokens = []string{"struct", "{", "}", "(", ")", "<", ">", ",", ";", ":", "=", "[", "]", "*", "\"", "'", "/*", "*/", "/**", "//", "#", "\n", "0x", "1e", "-", "+", ".", "\\", "const", "i32", "map", "list", "required", "throws", "extends", "oneway", "void", "include", "namespace", "true", "yield", "0xffffffffffffffffff", "99999999999999999999", "1e999", "\x00", "\xff"}

func mutateText(b []byte, r *core.Rand) []byte {
	out := append([]byte{}, b...)
	for k := r.Range(1, 3); k > 0; k-- {
		if len(out) == 0 {
			out = append(out, tokens[r.Intn(len(tokens))]...)
			continue
		}
		p := r.Intn(len(out))
		switch r.Intn(6) {
		case 0:
			out = out[:p]
		case 1:
			n := r.Range(1, 12)
			if p+n > len(out) {
				n = len(out) - p
			}
			out = append(out[:p], out[p+n:]...)
		case 2:
			t := tokens[r.Intn(len(tokens))]
			out = append(out[:p], append([]byte(t), out[p:]...)...)
		case 3:
			out[p] = byte(r.Uint64())
		case 4:
			q := r.Intn(len(out))
			out[p], out[q] = out[q], out[p]
		case 5:
			out[p] = " \n\t{}()<>,;:=\"'"[r.Intn(15)]
		}
	}
	return out
}

func parse(b []byte) (prog *ast.Program, info *idl.Info, err error, pan string) {
	defer func() {
		if p := recover(); p != nil {
			pan = fmt.Sprint(p) + "\n" + string(debug.Stack())
		}
	}()
	info = &idl.Info{}
	cfg := &idl.Config{Info: info}
	prog, err = cfg.Parse(b)
	return
}

func totality(c *core.Child, i uint64, b []byte) (*ast.Program, *idl.Info, bool) {
	prog, info, err, pan := parse(b)
	det := map[string]any{"text": string(b)}
	if pan != "" {
		det["panic"] = pan
		c.Violation(i, "parser panics: "+strings.SplitN(pan, "\n", 2)[0], "panic:parser", det)
		return nil, nil, false
	}
	if (prog == nil) == (err == nil) {
		c.Violation(i, fmt.Sprintf("parser returned program=%v and error=%v: exactly one of them is required", prog != nil, err), "", det)
		return nil, nil, false
	}
	// the convenience entry point must agree
	p2, err2 := idl.Parse(b)
	if (p2 == nil) != (prog == nil) || (err2 == nil) != (err == nil) {
		c.Violation(i, "idl.Parse and idl.Config.Parse disagree on success", "", det)
	}
	if err != nil {
		pe, ok := err.(*idl.ParseError)
		if !ok || len(pe.Errors) == 0 {
			c.Violation(i, fmt.Sprintf("parse failure without a non-empty error list (%T)", err), "", det)
			return nil, nil, false
		}
		lines := strings.Split(string(b), "\n")
		for _, e := range pe.Errors {
			ok := e.Pos.Line >= 1 && e.Pos.Line <= len(lines)+1 && e.Pos.Column >= 1
			if ok && e.Pos.Line <= len(lines) && e.Pos.Column > len(lines[e.Pos.Line-1])+1 {
				ok = false
			}
			if !ok {
				det["error"] = fmt.Sprint(e.Err)
				det["reported"] = fmt.Sprintf("%d:%d", e.Pos.Line, e.Pos.Column)
				det["lines"] = len(lines)
				sig := "errpos"
				if strings.Contains(string(b), "/**/") {
					// open finding KF-C11-2: identified by the input class
					sig = "errpos:input-contains-empty-comment-slash-star-star-slash"
				}
				c.Violation(i, fmt.Sprintf("parse error positioned outside the document: line %d column %d (document has %d lines)", e.Pos.Line, e.Pos.Column, len(lines)), sig, det)
				break
			}
		}
		return nil, nil, false
	}
	return prog, info, true
}

func c11Total(c *core.Child, i uint64, b []byte) {
	c.Count("cases", 1)
	c.Count("bytes_cases", 1)
	prog, info, ok := totality(c, i, b)
	if ok {
		c.Count("bytes_accepted", 1)
		walkCheck(c, i, prog, info, string(b))
	} else {
		c.Count("bytes_rejected", 1)
	}
	if len(b) > 8 {
		c.Nontrivial(core.HashBytes([]byte("b"), b))
	}
}

func walkCheck(c *core.Child, i uint64, prog *ast.Program, info *idl.Info, text string) {
	var got []visit
	func() {
		defer func() {
			if p := recover(); p != nil {
				c.Violation(i, fmt.Sprintf("ast.Walk panics: %v", p), "panic:walk", map[string]any{"text": text})
			}
		}()
		ast.Walk(recorder{info, &got}, prog)
	}()
	want := expectedVisits(prog, info)
	n := len(want)
	if len(got) < n {
		n = len(got)
	}
	for k := 0; k < n; k++ {
		if want[k] != got[k] {
			c.Violation(i, fmt.Sprintf("ast.Walk visit %d: expected %s (depth %d, parent %s), got %s (depth %d, parent %s)", k, want[k].what, want[k].depth, want[k].parent, got[k].what, got[k].depth, got[k].parent), "", map[string]any{"text": text})
			return
		}
	}
	if len(want) != len(got) {
		c.Violation(i, fmt.Sprintf("ast.Walk visited %d nodes, the tree has %d", len(got), len(want)), "", map[string]any{"text": text})
	}
	c.Count("walk_nodes", int64(len(want)))
}

func c11Valid(c *core.Child, i uint64, f *idlm.File) {
	c.Count("cases", 1)
	c.Count("valid_docs", 1)
	b := []byte(f.Text)
	prog, info, ok := totality(c, i, b)
	if !ok {
		if _, _, err, pan := parse(b); pan == "" && err != nil {
			c.Violation(i, "a syntactically valid document is rejected: "+strings.TrimSpace(err.Error()), "reject", map[string]any{"text": f.Text})
		}
		return
	}
	want := f.Node()
	got := ProgramNode(prog, info)
	if k := normalizePositions(want, got); k > 0 {
		c.Count("const_after_equals_reported_at_equals", int64(k))
		if !c.Flag("kf_c11_1_reported") {
			c.SetFlag("kf_c11_1_reported")
			c.Violation(i, fmt.Sprintf("%d node(s) directly after '=', ':' or 'extends' are positioned at that preceding token instead of at their own first token", k), "position:value-after-equals", map[string]any{"text": f.Text})
		}
	}
	if d := idlm.Diff(want, got, ""); d != "" {
		sig := "tree"
		if strings.Contains(d, "position:") {
			sig = "position"
		}
		c.Violation(i, "parsed tree differs from the source: "+d, sig, map[string]any{"text": f.Text})
	}
	walkCheck(c, i, prog, info, f.Text)
	c.Count("nodes", int64(countNodes(want)))
	if len(f.Defs) > 0 {
		c.Nontrivial(core.HashBytes([]byte("v"), b))
	}
	if i%499 == 0 {
		t := f.Text
		if len(t) > 700 {
			t = t[:700] + "…"
		}
		c.Sample(map[string]any{"stream": c.Stream, "index": i, "document": t})
	}
}

func countNodes(n *idlm.Node) int {
	k := 1
	for _, c := range n.Kids {
		k += countNodes(c)
	}
	return k
}
