package core

import (
	"bufio"
	"encoding/binary"
	"encoding/json"
	"fmt"
	"os"
	"sort"
	"strconv"
	"strings"
)

// Child is the workload side of the child protocol.
type Child struct {
	Monitor string
	Seed    uint64
	Stream  string
	From    uint64
	To      uint64
	Tier    string
	Trace   bool
	HMask   uint64
	Args    map[string]string
	base    string

	out      *bufio.Writer
	outf     *os.File
	hashf    *os.File
	prog     *os.File
	counters map[string]int64
	hashes   map[uint64]struct{}
	samples  int
	flags    map[string]bool
	Cur      uint64
}

const checkpoint = 1024

// ChildMain parses "monitor k=v ..." and dispatches.
func ChildMain(monitors map[string]func(*Child)) {
	if len(os.Args) < 2 {
		fmt.Fprintln(os.Stderr, "usage: vchild <monitor> k=v ...")
		os.Exit(3)
	}
	c := &Child{Monitor: os.Args[1], Args: map[string]string{}, counters: map[string]int64{}, hashes: map[uint64]struct{}{}}
	for _, a := range os.Args[2:] {
		if i := strings.Index(a, "="); i > 0 {
			c.Args[a[:i]] = a[i+1:]
		}
	}
	c.Seed, _ = strconv.ParseUint(c.Args["seed"], 10, 64)
	c.Stream = c.Args["stream"]
	c.From, _ = strconv.ParseUint(c.Args["from"], 10, 64)
	c.To, _ = strconv.ParseUint(c.Args["to"], 10, 64)
	c.HMask, _ = strconv.ParseUint(c.Args["hmask"], 10, 64)
	c.Tier = c.Args["tier"]
	c.Trace = c.Args["trace"] == "1"
	c.base = c.Args["out"]
	fn := monitors[c.Monitor]
	if fn == nil {
		fmt.Fprintln(os.Stderr, "unknown monitor", c.Monitor)
		os.Exit(3)
	}
	var err error
	if c.outf, err = os.Create(c.base + ".jsonl"); err != nil {
		fmt.Fprintln(os.Stderr, err)
		os.Exit(3)
	}
	c.out = bufio.NewWriter(c.outf)
	c.hashf, _ = os.Create(c.base + ".hashes")
	c.prog, _ = os.Create(c.base + ".progress")
	fn(c)
	c.flush()
	c.emit(map[string]any{"t": "end"})
	c.out.Flush()
	c.outf.Close()
	c.hashf.Close()
	c.prog.Close()
}

func (c *Child) emit(v any) {
	b, err := json.Marshal(v)
	if err != nil {
		b, _ = json.Marshal(map[string]any{"t": "i", "note": "unmarshalable event: " + err.Error()})
	}
	c.out.Write(b)
	c.out.WriteByte('\n')
}

func (c *Child) flush() {
	if len(c.counters) > 0 {
		c.emit(map[string]any{"t": "c", "counters": c.counters})
		c.counters = map[string]int64{}
	}
	if len(c.hashes) > 0 {
		buf := make([]byte, 0, 8*len(c.hashes))
		keys := make([]uint64, 0, len(c.hashes))
		for h := range c.hashes {
			keys = append(keys, h)
		}
		sort.Slice(keys, func(i, j int) bool { return keys[i] < keys[j] })
		for _, h := range keys {
			buf = binary.LittleEndian.AppendUint64(buf, h)
		}
		c.hashf.Write(buf)
		c.hashes = map[uint64]struct{}{}
	}
	c.out.Flush()
}

// Loop runs fn for every case index of the slice, checkpointing progress so a
// crash can be pinned to one case by the parent.
func (c *Child) Loop(fn func(i uint64, rng *Rand)) {
	for i := c.From; i < c.To; i++ {
		if c.Trace || (i-c.From)%checkpoint == 0 {
			if !c.Trace {
				c.flush()
			}
			c.prog.WriteAt([]byte(fmt.Sprintf("%020d\n", i)), 0)
		}
		c.Cur = i
		fn(i, NewRand(c.Seed, c.Stream, i))
		if c.Trace {
			c.flush()
		}
	}
}

// DumpCase stores the current case's concrete input when tracing, so a
// killing input ends up in the replay file.
func (c *Child) DumpCase(v any) {
	if !c.Trace {
		return
	}
	b, _ := json.Marshal(v)
	os.WriteFile(c.base+".case", b, 0o644)
}

// Flag / SetFlag: per-process one-shot markers for monitors.
func (c *Child) Flag(k string) bool { return c.flags[k] }
func (c *Child) SetFlag(k string) {
	if c.flags == nil {
		c.flags = map[string]bool{}
	}
	c.flags[k] = true
}

// Flush makes counters and hashes recorded so far survive a crash.
func (c *Child) Flush() { c.flush() }

func (c *Child) Count(key string, n int64) { c.counters[key] += n }

// Nontrivial registers a non-trivial case by content hash.
func (c *Child) Nontrivial(h uint64) {
	if h&c.HMask == 0 {
		c.hashes[h] = struct{}{}
	}
}

func (c *Child) Violation(i uint64, what, sig string, detail map[string]any) {
	c.emit(map[string]any{"t": "v", "v": Violation{Stream: c.Stream, Index: i, What: what, Sig: sig, Detail: detail}})
	c.out.Flush()
}

// Data sends a keyed observation to the parent (collected in Run.Data).
func (c *Child) Data(key, value string) {
	c.emit(map[string]any{"t": "d", "k": key, "val": value})
}

func (c *Child) Inconclusive(note string) {
	c.emit(map[string]any{"t": "i", "note": note})
}

// Sample keeps a few concrete cases for the evidence file.
func (c *Child) Sample(v any) {
	if c.samples < 2 {
		c.samples++
		c.emit(map[string]any{"t": "s", "sample": v})
	}
}

func (c *Child) Arg(k, def string) string {
	if v, ok := c.Args[k]; ok {
		return v
	}
	return def
}

func (c *Child) ArgInt(k string, def int) int {
	if v, ok := c.Args[k]; ok {
		n, err := strconv.Atoi(v)
		if err == nil {
			return n
		}
	}
	return def
}
