// Package core holds what every monitor shares: addressable PRNG streams,
// evidence and replay files, the known-findings file and the child runner.
// It imports nothing from thriftrw.
package core

import (
	"encoding/binary"
	"hash/fnv"
	"math"
)

func mix(z uint64) uint64 {
	z += 0x9e3779b97f4a7c15
	z = (z ^ (z >> 30)) * 0xbf58476d1ce4e5b9
	z = (z ^ (z >> 27)) * 0x94d049bb133111eb
	return z ^ (z >> 31)
}

// Hash derives the seed of case i of a named stream: a case never depends on
// the cases before it, so any case replays alone.
func Hash(seed uint64, stream string, i uint64) uint64 {
	h := fnv.New64a()
	h.Write([]byte(stream))
	return mix(mix(seed^0x5851f42d4c957f2d) ^ mix(h.Sum64()) ^ mix(i*0x9e3779b97f4a7c15+1))
}

// HashBytes is a 64-bit content hash used for distinct-case counting.
func HashBytes(parts ...[]byte) uint64 {
	h := fnv.New64a()
	var l [8]byte
	for _, p := range parts {
		binary.LittleEndian.PutUint64(l[:], uint64(len(p)))
		h.Write(l[:])
		h.Write(p)
	}
	return mix(h.Sum64())
}

// Rand is a small splitmix64 generator.
type Rand struct{ s uint64 }

func NewRand(seed uint64, stream string, i uint64) *Rand {
	return &Rand{s: Hash(seed, stream, i)}
}

func FromSeed(s uint64) *Rand { return &Rand{s: s} }

func (r *Rand) Uint64() uint64 {
	r.s += 0x9e3779b97f4a7c15
	z := r.s
	z = (z ^ (z >> 30)) * 0xbf58476d1ce4e5b9
	z = (z ^ (z >> 27)) * 0x94d049bb133111eb
	return z ^ (z >> 31)
}

// Fork returns an independent generator.
func (r *Rand) Fork() *Rand { return &Rand{s: mix(r.Uint64())} }

func (r *Rand) Intn(n int) int {
	if n <= 0 {
		return 0
	}
	return int(r.Uint64() % uint64(n))
}

// Range returns a value in [lo, hi].
func (r *Rand) Range(lo, hi int) int { return lo + r.Intn(hi-lo+1) }

func (r *Rand) Bool() bool { return r.Uint64()&1 == 1 }

// Chance is true with probability num/den.
func (r *Rand) Chance(num, den int) bool { return r.Intn(den) < num }

func (r *Rand) Float64() float64 { return float64(r.Uint64()>>11) / (1 << 53) }

func (r *Rand) Bytes(n int) []byte {
	b := make([]byte, n)
	for i := 0; i < n; i += 8 {
		v := r.Uint64()
		for j := 0; j < 8 && i+j < n; j++ {
			b[i+j] = byte(v >> (8 * j))
		}
	}
	return b
}

var boundaryI64 = []int64{0, 1, -1, 2, -2, 127, 128, -128, -129, 255, 256, 32767, 32768, -32768, -32769,
	65535, 65536, math.MaxInt32, math.MaxInt32 + 1, math.MinInt32, math.MinInt32 - 1, math.MaxUint32,
	math.MaxInt64, math.MinInt64, math.MaxInt64 - 1, math.MinInt64 + 1}

// Int64 draws a 64-bit integer biased to boundaries.
func (r *Rand) Int64() int64 {
	switch r.Intn(4) {
	case 0:
		return boundaryI64[r.Intn(len(boundaryI64))]
	case 1:
		return int64(r.Intn(200)) - 100
	default:
		return int64(r.Uint64())
	}
}

var boundaryF64 = []uint64{
	0, 0x8000000000000000, // +-0
	0x7ff0000000000000, 0xfff0000000000000, // +-inf
	0x7ff8000000000000, 0x7ff0000000000001, 0xfff8000000000001, 0x7fffffffffffffff, // NaNs
	1, 0x000fffffffffffff, // subnormals
	0x3ff0000000000000, 0xbff0000000000000, 0x7fefffffffffffff, 0x0010000000000000,
}

// F64Bits draws double bits including NaNs when nan is true.
func (r *Rand) F64Bits(nan bool) uint64 {
	for {
		var b uint64
		switch r.Intn(3) {
		case 0:
			b = boundaryF64[r.Intn(len(boundaryF64))]
		case 1:
			b = math.Float64bits(float64(r.Intn(2000)-1000) / 8)
		default:
			b = r.Uint64()
		}
		if !nan {
			f := math.Float64frombits(b)
			if f != f {
				continue
			}
		}
		return b
	}
}

// Perm returns a permutation of 0..n-1.
func (r *Rand) Perm(n int) []int {
	p := make([]int, n)
	for i := range p {
		p[i] = i
	}
	for i := n - 1; i > 0; i-- {
		j := r.Intn(i + 1)
		p[i], p[j] = p[j], p[i]
	}
	return p
}
