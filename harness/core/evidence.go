package core

import (
	"bufio"
	"bytes"
	"crypto/sha256"
	"encoding/hex"
	"encoding/json"
	"fmt"
	"os"
	"path/filepath"
	"regexp"
	"sort"
	"strconv"
	"strings"
	"sync"
	"time"
)

// Root is the verification tree this process works in: $VERIF_ROOT (set by the
// ./check script to its own directory), /verif by default.
var Root = func() string {
	if v := os.Getenv("VERIF_ROOT"); v != "" {
		return v
	}
	return "/verif"
}()

// Evidence mirrors EVIDENCE.schema.json.
type Evidence struct {
	PropertyID  string         `json:"property_id"`
	Tier        string         `json:"tier"`
	Seed        int64          `json:"seed"`
	Level       string         `json:"level"`
	Coverage    map[string]any `json:"coverage"`
	Assumptions []string       `json:"assumptions,omitempty"`
	WallS       float64        `json:"wall_s"`
	Violations  int            `json:"violations"`
}

// Violation is one refuting observation.
type Violation struct {
	Property string         `json:"property"`
	Stream   string         `json:"stream"`
	Index    uint64         `json:"index"`
	What     string         `json:"what"`
	Sig      string         `json:"sig,omitempty"` // call-site / class signature used by known-finding matchers
	Detail   map[string]any `json:"detail,omitempty"`
}

// Finding is one line of KNOWN_FINDINGS.txt.
type Finding struct {
	Open     bool
	Property string
	ID       string
	Match    string // "site=<re>", "sig=<re>", "what=<re>"
	What     string
	Raw      string
	re       *regexp.Regexp
}

// LoadFindings reads /verif/KNOWN_FINDINGS.txt (read-only at run time).
func LoadFindings() []Finding {
	f, err := os.Open(filepath.Join(Root, "KNOWN_FINDINGS.txt"))
	if err != nil {
		return nil
	}
	defer f.Close()
	var out []Finding
	sc := bufio.NewScanner(f)
	sc.Buffer(make([]byte, 1<<20), 1<<20)
	for sc.Scan() {
		line := strings.TrimSpace(sc.Text())
		if line == "" || strings.HasPrefix(line, "#") {
			continue
		}
		fd := Finding{Raw: line}
		switch {
		case strings.HasPrefix(line, "open:"):
			fd.Open = true
			rest := strings.TrimSpace(line[5:])
			fd.Property = field(rest, "property")
			fd.ID = field(rest, "id")
			fd.Match = field(rest, "match")
			if i := strings.Index(rest, "what="); i >= 0 {
				fd.What = rest[i+5:]
			}
			if fd.Match != "" {
				if j := strings.Index(fd.Match, "="); j >= 0 {
					fd.re, _ = regexp.Compile(fd.Match[j+1:])
				}
			}
		case strings.HasPrefix(line, "fixed:"):
			rest := strings.TrimSpace(line[6:])
			fd.Property = field(rest, "property")
		default:
			continue
		}
		out = append(out, fd)
	}
	return out
}

func field(s, key string) string {
	for _, tok := range strings.Fields(s) {
		if strings.HasPrefix(tok, key+"=") {
			return tok[len(key)+1:]
		}
	}
	return ""
}

// Matches reports whether an open finding covers this violation: same
// property and the matcher's regexp matches the violation's signature.
func (f Finding) Matches(v Violation) bool {
	if !f.Open || f.Property != v.Property || f.re == nil {
		return false
	}
	return f.re.MatchString(v.Sig)
}

// Run is the per-invocation state of one check.
type Run struct {
	Property string
	Tier     string
	Seed     uint64
	Level    string
	Start    time.Time
	Scratch  string
	crashes  int64 // child crashes/hangs pinned down so far (atomic)
	// CrossRoute, when set, recognises a child death that is the consequence of
	// an open finding of another property (returns the evidence counter to bump).
	CrossRoute func(stderr string) (string, bool)

	mu        sync.Mutex
	Coverage  map[string]any
	Assume    []string
	Viols     []Violation
	Known     map[string]int // finding id -> matched count
	Inconcl   []string
	samples   []any
	findings  []Finding
	violTotal int
	// Data: keyed observations sent by children (Child.Data)
	Data         map[string][]string
	Replay       bool
	ReplayStream string
	ReplayIndex  uint64
}

func NewRun(property, tier string) *Run {
	seed := uint64(1)
	if s := os.Getenv("VERIF_SEED"); s != "" {
		if v, err := strconv.ParseInt(s, 10, 64); err == nil {
			seed = uint64(v)
		}
	}
	r := &Run{Property: property, Tier: tier, Seed: seed, Level: "exploration", Start: time.Now(),
		Coverage: map[string]any{}, Known: map[string]int{}, findings: LoadFindings()}
	if rs := os.Getenv("VERIF_REPLAY_STREAM"); rs != "" {
		r.Replay = true
		r.ReplayStream = rs
		r.ReplayIndex, _ = strconv.ParseUint(os.Getenv("VERIF_REPLAY_INDEX"), 10, 64)
	}
	sweepStaleScratch()
	r.Scratch = filepath.Join("/var/tmp", fmt.Sprintf("verif-%s-%d", property, os.Getpid()))
	os.RemoveAll(r.Scratch)
	if err := os.MkdirAll(r.Scratch, 0o755); err != nil {
		Inconclusive("cannot create scratch: %v", err)
	}
	return r
}

func (r *Run) Cleanup() { os.RemoveAll(r.Scratch) }

// sweepStaleScratch removes scratch trees of check processes that no longer
// exist (killed runs cannot clean up after themselves).
func sweepStaleScratch() {
	dirs, _ := filepath.Glob("/var/tmp/verif-C??-*")
	for _, d := range dirs {
		k := strings.LastIndex(d, "-")
		pid, err := strconv.Atoi(d[k+1:])
		if err != nil || pid <= 0 {
			continue
		}
		if _, err := os.Stat(fmt.Sprintf("/proc/%d", pid)); os.IsNotExist(err) {
			os.RemoveAll(d)
		}
	}
}

func (r *Run) Quick() bool { return r.Tier != "thorough" }

// Pick returns q for the quick tier and t for thorough.
func (r *Run) Pick(q, t int) int {
	if r.Quick() {
		return q
	}
	return t
}

func (r *Run) Add(key string, n int64) {
	r.mu.Lock()
	defer r.mu.Unlock()
	switch v := r.Coverage[key].(type) {
	case int64:
		r.Coverage[key] = v + n
	case nil:
		r.Coverage[key] = n
	}
}

func (r *Run) Set(key string, v any) {
	r.mu.Lock()
	defer r.mu.Unlock()
	r.Coverage[key] = v
}

func (r *Run) Get(key string) int64 {
	r.mu.Lock()
	defer r.mu.Unlock()
	v, _ := r.Coverage[key].(int64)
	return v
}

func (r *Run) Sample(s any) {
	r.mu.Lock()
	defer r.mu.Unlock()
	if len(r.samples) < 8 {
		r.samples = append(r.samples, s)
	}
}

func (r *Run) Assumption(s string) { r.Assume = append(r.Assume, s) }

// OpenFindings returns the open findings of this property.
func (r *Run) OpenFindings() []Finding {
	var out []Finding
	for _, f := range r.findings {
		if f.Open && f.Property == r.Property {
			out = append(out, f)
		}
	}
	return out
}

// HasOpen reports whether any open finding (of any property) has this id.
func (r *Run) HasOpen(id string) bool {
	for _, f := range r.findings {
		if f.Open && f.ID == id {
			return true
		}
	}
	return false
}

// Violate records a violation unless an open finding's matcher covers it.
func (r *Run) Violate(v Violation) {
	v.Property = r.Property
	r.mu.Lock()
	defer r.mu.Unlock()
	for _, f := range r.findings {
		if f.Matches(v) {
			r.Known[f.ID]++
			return
		}
	}
	for _, o := range r.Viols {
		if o.Stream == v.Stream && o.Index == v.Index && o.What == v.What {
			return
		}
	}
	r.violTotal++
	if len(r.Viols) < 40 {
		r.Viols = append(r.Viols, v)
	}
}

func (r *Run) Inconclusive(format string, a ...any) {
	r.mu.Lock()
	defer r.mu.Unlock()
	r.Inconcl = append(r.Inconcl, fmt.Sprintf(format, a...))
}

// Require declares a minimum observation count; a run that observed less is
// inconclusive, not a pass.
func (r *Run) Require(key string, min int64) {
	if got := r.Get(key); got < min {
		r.Inconclusive("observed %s=%d, need >= %d", key, got, min)
	}
}

// Finish writes the evidence file, prints verdict lines and exits.
func (r *Run) Finish(rule string, evaluationsKey, distinctKey string) {
	// (os.Exit does not run deferred calls: clean up explicitly before every exit)
	cov := r.Coverage
	cov["rule"] = rule
	if _, ok := cov["evaluations"]; !ok {
		cov["evaluations"] = r.Get(evaluationsKey)
	}
	if _, ok := cov["distinct_nontrivial"]; !ok {
		cov["distinct_nontrivial"] = r.Get(distinctKey)
	}
	if len(r.samples) == 0 {
		r.samples = append(r.samples, "none recorded")
	}
	cov["samples"] = r.samples
	if len(r.Known) > 0 {
		cov["known_finding_matches"] = r.Known
	}
	if len(r.Inconcl) > 0 {
		cov["inconclusive"] = r.Inconcl
	}
	ev := Evidence{PropertyID: r.Property, Tier: r.Tier, Seed: int64(r.Seed), Level: r.Level,
		Coverage: cov, Assumptions: r.Assume, WallS: time.Since(r.Start).Seconds(), Violations: len(r.Viols)}
	if !r.Replay {
		os.MkdirAll(filepath.Join(Root, "evidence"), 0o755)
		var bb bytes.Buffer
		enc := json.NewEncoder(&bb)
		enc.SetEscapeHTML(false)
		enc.SetIndent("", " ")
		enc.Encode(ev)
		b := bytes.TrimRight(bb.Bytes(), "\n")
		tmp := filepath.Join(Root, "evidence", r.Property+".json.tmp")
		os.WriteFile(tmp, append(b, '\n'), 0o644)
		os.Rename(tmp, filepath.Join(Root, "evidence", r.Property+".json"))
	} else {
		r.Inconcl = nil
	}

	keys := make([]string, 0, len(r.Known))
	for k := range r.Known {
		keys = append(keys, k)
	}
	sort.Strings(keys)
	for _, f := range r.findings {
		if f.Open && r.Known[f.ID] > 0 {
			fmt.Printf("KNOWN-FINDING: property=%s %s (%s, %d observations)\n", f.Property, f.What, f.ID, r.Known[f.ID])
		}
	}
	if len(r.Viols) > 0 {
		for _, v := range r.Viols {
			p := r.WriteReplay(v)
			fmt.Printf("VIOLATION property=%s replay=%s\n", r.Property, p)
			fmt.Printf("  what: %s\n", v.What)
		}
		r.Cleanup()
		os.Exit(1)
	}
	if len(r.Inconcl) > 0 {
		for _, s := range r.Inconcl {
			fmt.Printf("INCONCLUSIVE property=%s %s\n", r.Property, s)
		}
		r.Cleanup()
		os.Exit(2)
	}
	fmt.Printf("OK property=%s tier=%s seed=%d evaluations=%v distinct_nontrivial=%v wall=%.1fs\n",
		r.Property, r.Tier, r.Seed, cov["evaluations"], cov["distinct_nontrivial"], ev.WallS)
	r.Cleanup()
	os.Exit(0)
}

// WriteReplay stores a violation under /verif/replays/<id>/.
func (r *Run) WriteReplay(v Violation) string {
	rec := map[string]any{"property": r.Property, "seed": r.Seed, "tier": r.Tier, "violation": v}
	b, _ := json.MarshalIndent(rec, "", " ")
	h := sha256.Sum256(b)
	dir := filepath.Join(Root, "replays", r.Property)
	os.MkdirAll(dir, 0o755)
	p := filepath.Join(dir, hex.EncodeToString(h[:6])+".json")
	os.WriteFile(p, b, 0o644)
	return p
}

// Inconclusive ends the process with exit 2 (harness trouble is never a
// violation).
func Inconclusive(format string, a ...any) {
	fmt.Printf("INCONCLUSIVE "+format+"\n", a...)
	os.Exit(2)
}
