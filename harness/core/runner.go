package core

import (
	"bufio"
	"bytes"
	"encoding/binary"
	"encoding/json"
	"fmt"
	"os"
	"os/exec"
	"path/filepath"
	"regexp"
	"runtime"
	"strconv"
	"strings"
	"sync"
	"sync/atomic"
	"syscall"
	"time"
)

var HarnessDir = Root + "/harness"

// GoBuild builds a package of the harness module (linking /repo's working
// tree) into the run's scratch directory.
func (r *Run) GoBuild(name, pkg string, flags ...string) string {
	out := filepath.Join(r.Scratch, name)
	args := append([]string{"build", "-tags", "verif"}, flags...)
	args = append(args, "-o", out, pkg)
	cmd := exec.Command("go", args...)
	cmd.Dir = HarnessDir
	b, err := cmd.CombinedOutput()
	if err != nil {
		// A build failure inside /repo is a fact about the tree under test only
		// if the harness itself builds; we cannot tell here, so: inconclusive.
		r.Cleanup()
		Inconclusive("go build %s failed: %v\n%s", pkg, err, tail(b, 4000))
	}
	return out
}

// GoBuildRepo builds a main package of /repo itself (the real CLIs), e.g.
// "go.uber.org/thriftrw" or "go.uber.org/thriftrw/cmd/thriftbreak". It is
// built from the harness module (whose replace directive points at /repo) so
// that nothing under /repo is written, not even go.sum.
func (r *Run) GoBuildRepo(name, pkg string, flags ...string) string {
	out := filepath.Join(r.Scratch, name)
	args := append([]string{"build"}, flags...)
	args = append(args, "-o", out, pkg)
	cmd := exec.Command("go", args...)
	cmd.Dir = HarnessDir
	b, err := cmd.CombinedOutput()
	if err != nil {
		r.Cleanup()
		Inconclusive("go build %s failed: %v\n%s", pkg, err, tail(b, 4000))
	}
	return out
}

func head(b []byte, n int) string {
	if len(b) > n {
		b = b[:n]
	}
	return string(b)
}

func tail(b []byte, n int) string {
	if len(b) > n {
		b = b[len(b)-n:]
	}
	return string(b)
}

// ChildSpec describes an index-addressed workload split over processes.
type ChildSpec struct {
	Bin     string
	Monitor string
	Stream  string
	From    uint64
	To      uint64
	Extra   []string // extra "k=v" arguments
	Env     []string
	Timeout time.Duration // per child process
	Procs   int
	HMask   uint64 // distinct counting keeps hashes with h&HMask==0
	MemKB   int    // ulimit -v for the child (0 = none)
	Prefix  string // counter prefix in coverage
}

type childEvent struct {
	T        string           `json:"t"`
	V        *Violation       `json:"v,omitempty"`
	Sample   any              `json:"sample,omitempty"`
	Counters map[string]int64 `json:"counters,omitempty"`
	Note     string           `json:"note,omitempty"`
	K        string           `json:"k,omitempty"`
	Val      string           `json:"val,omitempty"`
}

var distinctMu sync.Mutex

// RunChildren executes the workload; violations, samples, counters and
// distinct hashes are merged into the run.
func (r *Run) RunChildren(spec ChildSpec) {
	if spec.Procs <= 0 {
		spec.Procs = runtime.NumCPU()
	}
	if r.Replay {
		if spec.Stream != r.ReplayStream || r.ReplayIndex < spec.From || r.ReplayIndex >= spec.To {
			return
		}
		spec.From, spec.To, spec.Procs = r.ReplayIndex, r.ReplayIndex+1, 1
	}
	total := spec.To - spec.From
	if total == 0 {
		return
	}
	if uint64(spec.Procs) > total {
		spec.Procs = int(total)
	}
	if spec.Timeout == 0 {
		spec.Timeout = 20 * time.Minute
	}
	if r.Quick() && spec.Timeout > 4*time.Minute {
		// quick slices take seconds; a watchdog that fires without the case
		// reproducing alone is inconclusive, never a violation
		spec.Timeout = 4 * time.Minute
	}
	// More slices than processes so one slow slice does not serialise the run.
	slices := spec.Procs * 4
	if uint64(slices) > total {
		slices = int(total)
	}
	type rng struct{ a, b uint64 }
	work := make(chan rng, slices)
	for i := 0; i < slices; i++ {
		// even split: slice i is [i*total/slices, (i+1)*total/slices)
		a := spec.From + uint64(i)*total/uint64(slices)
		b := spec.From + uint64(i+1)*total/uint64(slices)
		if a < b {
			work <- rng{a, b}
		}
	}
	close(work)
	var wg sync.WaitGroup
	var seq int64
	for p := 0; p < spec.Procs; p++ {
		wg.Add(1)
		go func() {
			defer wg.Done()
			for w := range work {
				r.runSlice(spec, w.a, w.b, int(atomic.AddInt64(&seq, 1)))
			}
		}()
	}
	wg.Wait()
}

func (r *Run) distinctSet() map[uint64]struct{} {
	if r.Coverage["__distinct"] == nil {
		r.Coverage["__distinct"] = map[uint64]struct{}{}
	}
	return r.Coverage["__distinct"].(map[uint64]struct{})
}

// runSlice runs [a,b) in one child, isolating a killing case if the child dies.
func (r *Run) runSlice(spec ChildSpec, a, b uint64, id int) {
	for attempt := 0; a < b && attempt < 40; attempt++ {
		if atomic.LoadInt64(&r.crashes) >= 6 {
			// the run already fails; pinning down more crashing or hanging cases only costs watchdogs
			r.Add("slices_skipped_after_crash_limit", 1)
			return
		}
		base := filepath.Join(r.Scratch, fmt.Sprintf("%s-%s-%d-%d", spec.Monitor, spec.Stream, id, attempt))
		res := r.execChild(spec, a, b, base, false)
		r.merge(spec, base)
		if res.ok {
			cleanupChildFiles(base)
			return
		}
		// The child died or hung. Find the case: rerun from the last checkpoint
		// with per-case tracing.
		cp := readProgress(base, a)
		tb := base + "-trace"
		end := cp + 4096
		if end > b {
			end = b
		}
		// the interval holds at most 4096 cases and the single case one: short
		// watchdogs, or a hang defect costs three full watchdogs per slice
		short := spec
		if short.Timeout > 3*time.Minute {
			short.Timeout = 3 * time.Minute
		}
		res2 := r.execChild(short, cp, end, tb, true)
		if res2.ok {
			// did not reproduce in isolation of the interval
			r.merge(spec, tb)
			r.Inconclusive("child %s/%s died in [%d,%d) (%s) but the interval re-ran cleanly: %s", spec.Monitor, spec.Stream, cp, end, res.how, tail([]byte(res.stderr), 600))
			cleanupChildFiles(base)
			cleanupChildFiles(tb)
			a = end
			continue
		}
		r.merge(spec, tb)
		killer := readProgress(tb, cp)
		// Confirm alone.
		sb := base + "-single"
		res3 := r.execChild(short, killer, killer+1, sb, true)
		r.merge(spec, sb)
		if res3.ok {
			r.Inconclusive("child %s/%s died at case %d (%s) but the case alone passes", spec.Monitor, spec.Stream, killer, res2.how)
		} else {
			if r.CrossRoute != nil {
				if counter, ok := r.CrossRoute(res3.stderr); ok {
					// the death is a listed finding of ANOTHER property showing through this workload
					r.Add(counter, 1)
					cleanupChildFiles(base)
					cleanupChildFiles(tb)
					cleanupChildFiles(sb)
					a = killer + 1
					continue
				}
			}
			sig, top := crashSignature(res3.stderr)
			if sig == "crash:" && strings.Contains(res3.stderr, "goroutine ") && !strings.Contains(res3.stderr, "go.uber.org/thriftrw") {
				// a Go crash dump without a single frame of the code under test: the harness itself failed
				r.Inconclusive("harness fault in child %s/%s at case %d (%s): %s ... %s", spec.Monitor, spec.Stream, killer, top, head([]byte(res3.stderr), 2500), tail([]byte(res3.stderr), 800))
				cleanupChildFiles(base)
				cleanupChildFiles(tb)
				cleanupChildFiles(sb)
				a = killer + 1
				continue
			}
			if SigRewrite != nil {
				sig = SigRewrite(r.Property, sig, res3.stderr)
			}
			v := Violation{Stream: spec.Stream, Index: killer, Sig: sig,
				What:   fmt.Sprintf("child process %s on case %d of stream %s: %s", res3.how, killer, spec.Stream, top),
				Detail: map[string]any{"monitor": spec.Monitor, "extra": spec.Extra, "stderr_tail": tail([]byte(res3.stderr), 3000), "case": readCase(sb)}}
			r.Violate(v)
			atomic.AddInt64(&r.crashes, 1)
		}
		cleanupChildFiles(base)
		cleanupChildFiles(tb)
		cleanupChildFiles(sb)
		a = killer + 1
	}
}

func cleanupChildFiles(base string) {
	for _, s := range []string{".jsonl", ".hashes", ".progress", ".stderr", ".case"} {
		os.Remove(base + s)
	}
}

func readProgress(base string, def uint64) uint64 {
	b, err := os.ReadFile(base + ".progress")
	if err != nil {
		return def
	}
	f := strings.Fields(string(b))
	if len(f) == 0 {
		return def
	}
	v, err := strconv.ParseUint(f[len(f)-1], 10, 64)
	if err != nil {
		return def
	}
	return v
}

func readCase(base string) any {
	b, err := os.ReadFile(base + ".case")
	if err != nil {
		return nil
	}
	if len(b) > 20000 {
		b = b[:20000]
	}
	return string(b)
}

var frameRe = regexp.MustCompile(`(?m)^(go\.uber\.org/thriftrw[^\s(]*|verif/[^\s(]*|main\.[^\s(]*)\(`)

// crashSignature extracts "kind @ first thriftrw frame" from a Go crash dump.
func crashSignature(stderr string) (sig, top string) {
	kind := "exit"
	for _, line := range strings.Split(stderr, "\n") {
		if strings.HasPrefix(line, "panic:") || strings.HasPrefix(line, "fatal error:") || strings.HasPrefix(line, "runtime: goroutine stack exceeds") {
			kind = strings.TrimSpace(line)
			if len(kind) > 200 {
				kind = kind[:200]
			}
			break
		}
	}
	frame := ""
	for _, m := range frameRe.FindAllStringSubmatch(stderr, -1) {
		if strings.HasPrefix(m[1], "go.uber.org/thriftrw") {
			frame = m[1]
			break
		}
	}
	return "crash:" + frame, kind + " at " + frame
}

// SigRewrite lets a check refine crash signatures (e.g. C13 turns an
// out-of-memory death into an allocation-site signature).
var SigRewrite func(property, sig, stderr string) string

type childResult struct {
	ok     bool
	how    string
	stderr string
}

func (r *Run) execChild(spec ChildSpec, a, b uint64, base string, trace bool) childResult {
	args := []string{spec.Monitor,
		"seed=" + strconv.FormatUint(r.Seed, 10), "stream=" + spec.Stream,
		"from=" + strconv.FormatUint(a, 10), "to=" + strconv.FormatUint(b, 10),
		"out=" + base, "hmask=" + strconv.FormatUint(spec.HMask, 10), "tier=" + r.Tier}
	if trace {
		args = append(args, "trace=1")
	}
	args = append(args, spec.Extra...)
	var cmd *exec.Cmd
	if spec.MemKB > 0 {
		sh := fmt.Sprintf("ulimit -v %d; exec \"$0\" \"$@\"", spec.MemKB)
		cmd = exec.Command("bash", append([]string{"-c", sh, spec.Bin}, args...)...)
	} else {
		cmd = exec.Command(spec.Bin, args...)
	}
	cmd.Env = append(os.Environ(), "GOTRACEBACK=all")
	cmd.Env = append(cmd.Env, spec.Env...)
	errf, _ := os.Create(base + ".stderr")
	cmd.Stderr = errf
	cmd.Stdout = errf
	cmd.SysProcAttr = &syscall.SysProcAttr{Setpgid: true}
	if err := cmd.Start(); err != nil {
		errf.Close()
		r.Cleanup()
		Inconclusive("cannot start child: %v", err)
	}
	done := make(chan error, 1)
	go func() { done <- cmd.Wait() }()
	how := ""
	var err error
	select {
	case err = <-done:
	case <-time.After(spec.Timeout):
		// ask for a goroutine dump, then kill
		syscall.Kill(-cmd.Process.Pid, syscall.SIGQUIT)
		select {
		case err = <-done:
		case <-time.After(10 * time.Second):
			syscall.Kill(-cmd.Process.Pid, syscall.SIGKILL)
			err = <-done
		}
		how = fmt.Sprintf("did not finish within the %v watchdog", spec.Timeout)
	}
	errf.Close()
	se, _ := os.ReadFile(base + ".stderr")
	if how == "" && err == nil {
		// must also have written the final summary
		if childFinished(base) {
			return childResult{ok: true}
		}
		return childResult{how: "exited 0 without a summary", stderr: string(se)}
	}
	if how == "" {
		how = "died: " + err.Error()
	}
	return childResult{how: how, stderr: string(se)}
}

func childFinished(base string) bool {
	b, err := os.ReadFile(base + ".jsonl")
	if err != nil {
		return false
	}
	return bytes.Contains(b, []byte(`"t":"end"`))
}

func (r *Run) merge(spec ChildSpec, base string) {
	f, err := os.Open(base + ".jsonl")
	if err == nil {
		sc := bufio.NewScanner(f)
		sc.Buffer(make([]byte, 1<<20), 64<<20)
		for sc.Scan() {
			var ev childEvent
			if json.Unmarshal(sc.Bytes(), &ev) != nil {
				continue
			}
			switch ev.T {
			case "v":
				if ev.V != nil {
					r.Violate(*ev.V)
				}
			case "s":
				r.Sample(ev.Sample)
			case "c", "end":
				for k, n := range ev.Counters {
					r.Add(spec.Prefix+k, n)
				}
			case "i":
				r.Inconclusive("%s", ev.Note)
			case "d":
				r.mu.Lock()
				if r.Data == nil {
					r.Data = map[string][]string{}
				}
				r.Data[ev.K] = append(r.Data[ev.K], ev.Val)
				r.mu.Unlock()
			}
		}
		f.Close()
	}
	if hb, err := os.ReadFile(base + ".hashes"); err == nil {
		distinctMu.Lock()
		r.mu.Lock()
		set := r.distinctSet()
		for i := 0; i+8 <= len(hb); i += 8 {
			set[binary.LittleEndian.Uint64(hb[i:])] = struct{}{}
		}
		r.mu.Unlock()
		distinctMu.Unlock()
	}
	// so a later merge of the same base (trace reruns) does not double count
	os.Remove(base + ".jsonl")
	os.Remove(base + ".hashes")
}

// Distinct returns the number of distinct non-trivial case hashes merged so far.
func (r *Run) Distinct() int64 {
	r.mu.Lock()
	defer r.mu.Unlock()
	return int64(len(r.distinctSet()))
}

// AddDistinct adds a hash from the parent side.
func (r *Run) AddDistinct(h uint64) {
	r.mu.Lock()
	defer r.mu.Unlock()
	r.distinctSet()[h] = struct{}{}
}

// FinishStd finalises with distinct_nontrivial taken from the merged hash set.
func (r *Run) FinishStd(rule, evaluationsKey string) {
	d := r.Distinct()
	r.mu.Lock()
	delete(r.Coverage, "__distinct")
	r.Coverage["distinct_nontrivial"] = d
	r.mu.Unlock()
	if d < 2 {
		r.Inconclusive("only %d distinct non-trivial cases observed", d)
	}
	r.Finish(rule, evaluationsKey, "")
}
