// Package refcodec is an independent statement of the Thrift binary protocol,
// written from the protocol specification. It imports nothing from thriftrw.
//
//	bool    1 byte, 0 or 1
//	i8/i16/i32/i64   big-endian two's complement
//	double  IEEE-754 bits, big-endian
//	binary  i32 length, bytes
//	struct  (type:1 id:2 value)* 0x00
//	map     ktype:1 vtype:1 count:4 (key value)*
//	set/list etype:1 count:4 value*
package refcodec

import (
	"encoding/binary"
	"errors"
	"fmt"
	"math"
	"sort"
	"strings"
)

const (
	TBool   = 2
	TI8     = 3
	TDouble = 4
	TI16    = 6
	TI32    = 8
	TI64    = 10
	TBinary = 11
	TStruct = 12
	TMap    = 13
	TSet    = 14
	TList   = 15
)

var AllTypes = []byte{TBool, TI8, TDouble, TI16, TI32, TI64, TBinary, TStruct, TMap, TSet, TList}

func KnownType(t byte) bool {
	switch t {
	case TBool, TI8, TDouble, TI16, TI32, TI64, TBinary, TStruct, TMap, TSet, TList:
		return true
	}
	return false
}

// W is an untyped wire tree.
type W struct {
	T      byte
	I      int64   // bool (0/1) and integers
	F      uint64  // double bits
	B      []byte  // binary
	Fields []Field // struct
	KT, VT byte    // map key/value types; VT is the element type of list/set
	Items  []W     // list/set items; for maps k0,v0,k1,v1,...
}

type Field struct {
	ID int16
	V  W
}

func Bool(b bool) W {
	if b {
		return W{T: TBool, I: 1}
	}
	return W{T: TBool}
}
func I8(v int8) W                { return W{T: TI8, I: int64(v)} }
func I16(v int16) W              { return W{T: TI16, I: int64(v)} }
func I32(v int32) W              { return W{T: TI32, I: int64(v)} }
func I64(v int64) W              { return W{T: TI64, I: v} }
func Double(bits uint64) W       { return W{T: TDouble, F: bits} }
func Binary(b []byte) W          { return W{T: TBinary, B: b} }
func Struct(fs ...Field) W       { return W{T: TStruct, Fields: fs} }
func List(et byte, items ...W) W { return W{T: TList, VT: et, Items: items} }
func Set(et byte, items ...W) W  { return W{T: TSet, VT: et, Items: items} }
func Map(kt, vt byte, kv ...W) W { return W{T: TMap, KT: kt, VT: vt, Items: kv} }
func (w W) Count() int {
	if w.T == TMap {
		return len(w.Items) / 2
	}
	return len(w.Items)
}

// Encode appends the binary-protocol encoding of w.
func Append(dst []byte, w W) []byte {
	switch w.T {
	case TBool:
		if w.I != 0 {
			return append(dst, 1)
		}
		return append(dst, 0)
	case TI8:
		return append(dst, byte(w.I))
	case TI16:
		return binary.BigEndian.AppendUint16(dst, uint16(w.I))
	case TI32:
		return binary.BigEndian.AppendUint32(dst, uint32(w.I))
	case TI64:
		return binary.BigEndian.AppendUint64(dst, uint64(w.I))
	case TDouble:
		return binary.BigEndian.AppendUint64(dst, w.F)
	case TBinary:
		dst = binary.BigEndian.AppendUint32(dst, uint32(len(w.B)))
		return append(dst, w.B...)
	case TStruct:
		for _, f := range w.Fields {
			dst = append(dst, f.V.T)
			dst = binary.BigEndian.AppendUint16(dst, uint16(f.ID))
			dst = Append(dst, f.V)
		}
		return append(dst, 0)
	case TMap:
		dst = append(dst, w.KT, w.VT)
		dst = binary.BigEndian.AppendUint32(dst, uint32(len(w.Items)/2))
		for _, it := range w.Items {
			dst = Append(dst, it)
		}
		return dst
	case TSet, TList:
		dst = append(dst, w.VT)
		dst = binary.BigEndian.AppendUint32(dst, uint32(len(w.Items)))
		for _, it := range w.Items {
			dst = Append(dst, it)
		}
		return dst
	}
	panic(fmt.Sprintf("refcodec: cannot encode type %d", w.T))
}

func Encode(w W) []byte { return Append(nil, w) }

var (
	ErrShort   = errors.New("refcodec: unexpected end of input")
	ErrBool    = errors.New("refcodec: bool not 0/1")
	ErrNegLen  = errors.New("refcodec: negative length")
	ErrType    = errors.New("refcodec: unknown type code")
	ErrTooDeep = errors.New("refcodec: nesting too deep")
)

// Decode strictly decodes one value of type t from the start of b.
func Decode(b []byte, t byte) (W, int, error) {
	d := decoder{b: b}
	w, err := d.value(t, 0)
	return w, d.off, err
}

type decoder struct {
	b   []byte
	off int
	// Lenient mode: stats only
	oversize bool
	sites    []int
	record   bool
}

func (d *decoder) need(n int) error {
	if n < 0 || len(d.b)-d.off < n {
		return ErrShort
	}
	return nil
}

func (d *decoder) value(t byte, depth int) (W, error) {
	if depth > 200000 {
		return W{}, ErrTooDeep
	}
	switch t {
	case TBool:
		if err := d.need(1); err != nil {
			return W{}, err
		}
		v := d.b[d.off]
		d.off++
		if v > 1 {
			return W{}, ErrBool
		}
		return W{T: TBool, I: int64(v)}, nil
	case TI8:
		if err := d.need(1); err != nil {
			return W{}, err
		}
		v := int8(d.b[d.off])
		d.off++
		return I8(v), nil
	case TI16:
		if err := d.need(2); err != nil {
			return W{}, err
		}
		v := int16(binary.BigEndian.Uint16(d.b[d.off:]))
		d.off += 2
		return I16(v), nil
	case TI32:
		if err := d.need(4); err != nil {
			return W{}, err
		}
		v := int32(binary.BigEndian.Uint32(d.b[d.off:]))
		d.off += 4
		return I32(v), nil
	case TI64:
		if err := d.need(8); err != nil {
			return W{}, err
		}
		v := int64(binary.BigEndian.Uint64(d.b[d.off:]))
		d.off += 8
		return I64(v), nil
	case TDouble:
		if err := d.need(8); err != nil {
			return W{}, err
		}
		v := binary.BigEndian.Uint64(d.b[d.off:])
		d.off += 8
		return Double(v), nil
	case TBinary:
		n, err := d.length()
		if err != nil {
			return W{}, err
		}
		if err := d.need(n); err != nil {
			d.oversize = true
			return W{}, err
		}
		v := append([]byte{}, d.b[d.off:d.off+n]...)
		d.off += n
		return Binary(v), nil
	case TStruct:
		w := W{T: TStruct}
		for {
			if err := d.need(1); err != nil {
				return W{}, err
			}
			ft := d.b[d.off]
			d.off++
			if ft == 0 {
				return w, nil
			}
			if err := d.need(2); err != nil {
				return W{}, err
			}
			id := int16(binary.BigEndian.Uint16(d.b[d.off:]))
			d.off += 2
			v, err := d.value(ft, depth+1)
			if err != nil {
				return W{}, err
			}
			w.Fields = append(w.Fields, Field{id, v})
		}
	case TMap:
		if err := d.need(2); err != nil {
			return W{}, err
		}
		kt, vt := d.b[d.off], d.b[d.off+1]
		d.off += 2
		n, err := d.length()
		if err != nil {
			return W{}, err
		}
		if n > len(d.b)-d.off {
			d.oversize = true
		}
		w := W{T: TMap, KT: kt, VT: vt}
		if n > 0 && (!KnownType(kt) || !KnownType(vt)) {
			return W{}, ErrType
		}
		for i := 0; i < n; i++ {
			k, err := d.value(kt, depth+1)
			if err != nil {
				return W{}, err
			}
			v, err := d.value(vt, depth+1)
			if err != nil {
				return W{}, err
			}
			w.Items = append(w.Items, k, v)
		}
		return w, nil
	case TSet, TList:
		if err := d.need(1); err != nil {
			return W{}, err
		}
		et := d.b[d.off]
		d.off++
		n, err := d.length()
		if err != nil {
			return W{}, err
		}
		if n > len(d.b)-d.off {
			d.oversize = true
		}
		w := W{T: t, VT: et}
		if n > 0 && !KnownType(et) {
			return W{}, ErrType
		}
		for i := 0; i < n; i++ {
			v, err := d.value(et, depth+1)
			if err != nil {
				return W{}, err
			}
			w.Items = append(w.Items, v)
		}
		return w, nil
	}
	return W{}, ErrType
}

func (d *decoder) length() (int, error) {
	if err := d.need(4); err != nil {
		return 0, err
	}
	if d.record {
		d.sites = append(d.sites, d.off)
	}
	n := int32(binary.BigEndian.Uint32(d.b[d.off:]))
	d.off += 4
	if n < 0 {
		return 0, ErrNegLen
	}
	return int(n), nil
}

// DeclaresMoreThanRemains reports whether, while walking b as a value of type
// t, some declared binary length or container count exceeds the number of
// bytes that remain at that point. Every element occupies at least one byte,
// so such an input can never decode successfully; what a decoder does with it
// before failing is property C13's question.
func DeclaresMoreThanRemains(b []byte, t byte) bool {
	d := decoder{b: b}
	d.value(t, 0)
	return d.oversize
}

// Equal compares two trees exactly (bitwise doubles, ordered containers).
func Equal(a, b W) bool {
	if a.T != b.T {
		return false
	}
	switch a.T {
	case TBool:
		return (a.I != 0) == (b.I != 0)
	case TI8, TI16, TI32, TI64:
		return a.I == b.I
	case TDouble:
		return a.F == b.F
	case TBinary:
		return string(a.B) == string(b.B)
	case TStruct:
		if len(a.Fields) != len(b.Fields) {
			return false
		}
		for i := range a.Fields {
			if a.Fields[i].ID != b.Fields[i].ID || !Equal(a.Fields[i].V, b.Fields[i].V) {
				return false
			}
		}
		return true
	case TMap:
		if a.KT != b.KT {
			return false
		}
		fallthrough
	case TSet, TList:
		if a.VT != b.VT || len(a.Items) != len(b.Items) {
			return false
		}
		for i := range a.Items {
			if !Equal(a.Items[i], b.Items[i]) {
				return false
			}
		}
		return true
	}
	return false
}

// String renders a tree compactly (for samples and replays).
func (w W) String() string {
	var sb strings.Builder
	w.str(&sb, 0)
	return sb.String()
}

func (w W) str(sb *strings.Builder, depth int) {
	if sb.Len() > 600 {
		sb.WriteString("…")
		return
	}
	switch w.T {
	case TBool:
		fmt.Fprintf(sb, "bool(%d)", w.I)
	case TI8:
		fmt.Fprintf(sb, "i8(%d)", w.I)
	case TI16:
		fmt.Fprintf(sb, "i16(%d)", w.I)
	case TI32:
		fmt.Fprintf(sb, "i32(%d)", w.I)
	case TI64:
		fmt.Fprintf(sb, "i64(%d)", w.I)
	case TDouble:
		fmt.Fprintf(sb, "f64(%#x)", w.F)
	case TBinary:
		if len(w.B) > 16 {
			fmt.Fprintf(sb, "bin[%d](%x…)", len(w.B), w.B[:16])
		} else {
			fmt.Fprintf(sb, "bin(%x)", w.B)
		}
	case TStruct:
		sb.WriteString("{")
		for i, f := range w.Fields {
			if i > 0 {
				sb.WriteString(",")
			}
			fmt.Fprintf(sb, "%d:", f.ID)
			f.V.str(sb, depth+1)
		}
		sb.WriteString("}")
	case TMap:
		fmt.Fprintf(sb, "map<%d,%d>[", w.KT, w.VT)
		for i, it := range w.Items {
			if i > 0 {
				sb.WriteString(",")
			}
			it.str(sb, depth+1)
		}
		sb.WriteString("]")
	case TSet, TList:
		if w.T == TSet {
			sb.WriteString("set")
		} else {
			sb.WriteString("list")
		}
		fmt.Fprintf(sb, "<%d>[", w.VT)
		for i, it := range w.Items {
			if i > 0 {
				sb.WriteString(",")
			}
			it.str(sb, depth+1)
		}
		sb.WriteString("]")
	default:
		fmt.Fprintf(sb, "?%d", w.T)
	}
}

// ---- envelopes and frames ---------------------------------------------------

const (
	Call      = 1
	Reply     = 2
	Exception = 3
	OneWay    = 4
)

type Envelope struct {
	Name  []byte
	Type  int8
	SeqID int32
	Body  W
}

// AppendStrict writes the versioned envelope:
// 0x8001 0x00 type:1 | name~4 | seqid:4 | struct
func AppendStrict(dst []byte, e Envelope) []byte {
	dst = binary.BigEndian.AppendUint32(dst, 0x80010000|uint32(uint8(e.Type)))
	dst = binary.BigEndian.AppendUint32(dst, uint32(len(e.Name)))
	dst = append(dst, e.Name...)
	dst = binary.BigEndian.AppendUint32(dst, uint32(e.SeqID))
	return Append(dst, e.Body)
}

// AppendLegacy writes the unversioned envelope: name~4 type:1 seqid:4 struct
func AppendLegacy(dst []byte, e Envelope) []byte {
	dst = binary.BigEndian.AppendUint32(dst, uint32(len(e.Name)))
	dst = append(dst, e.Name...)
	dst = append(dst, byte(e.Type))
	dst = binary.BigEndian.AppendUint32(dst, uint32(e.SeqID))
	return Append(dst, e.Body)
}

// Framing kinds.
const (
	FrameStrict = "strict"
	FrameLegacy = "legacy"
	FrameBare   = "bare"
)

// DecodeMessage classifies and decodes a message the way the documented
// envelope-agnostic grammar prescribes. It returns the framing, the envelope
// (zero for bare) and the number of bytes consumed.
func DecodeMessage(b []byte) (string, Envelope, int, error) {
	if len(b) >= 2 && b[0]&0x80 != 0 {
		if len(b) < 4 {
			return FrameStrict, Envelope{}, 0, ErrShort
		}
		h := binary.BigEndian.Uint32(b)
		if h&0x7fff0000 != 0x00010000 {
			return FrameStrict, Envelope{}, 0, errors.New("refcodec: unknown envelope version")
		}
		e := Envelope{Type: int8(h & 0xff)}
		d := decoder{b: b, off: 4}
		n, err := d.length()
		if err != nil {
			return FrameStrict, e, 0, err
		}
		if err := d.need(n); err != nil {
			return FrameStrict, e, 0, err
		}
		e.Name = append([]byte{}, b[d.off:d.off+n]...)
		d.off += n
		if err := d.need(4); err != nil {
			return FrameStrict, e, 0, err
		}
		e.SeqID = int32(binary.BigEndian.Uint32(b[d.off:]))
		d.off += 4
		body, err := d.value(TStruct, 0)
		e.Body = body
		return FrameStrict, e, d.off, err
	}
	if len(b) >= 2 && b[0] == 0 {
		d := decoder{b: b}
		n, err := d.length()
		e := Envelope{}
		if err != nil {
			return FrameLegacy, e, 0, err
		}
		if err := d.need(n); err != nil {
			return FrameLegacy, e, 0, err
		}
		e.Name = append([]byte{}, b[d.off:d.off+n]...)
		d.off += n
		if err := d.need(5); err != nil {
			return FrameLegacy, e, 0, err
		}
		e.Type = int8(b[d.off])
		e.SeqID = int32(binary.BigEndian.Uint32(b[d.off+1:]))
		d.off += 5
		body, err := d.value(TStruct, 0)
		e.Body = body
		return FrameLegacy, e, d.off, err
	}
	d := decoder{b: b}
	body, err := d.value(TStruct, 0)
	return FrameBare, Envelope{Body: body}, d.off, err
}

// Frame prefixes a payload with its 4-byte big-endian length.
func Frame(p []byte) []byte {
	out := binary.BigEndian.AppendUint32(nil, uint32(len(p)))
	return append(out, p...)
}

// LengthSites returns the offsets of every 4-byte length or count field of the
// value of type t that starts at offset start of a valid encoding.
func LengthSites(b []byte, t byte, start int) []int {
	d := decoder{b: b, off: start, record: true}
	d.value(t, 0)
	return d.sites
}

// CanonKey renders a tree with sets and maps in sorted order and doubles by
// numeric value (+0 and -0 alike): equal keys <=> equal wire values in the
// sense of Thrift equality (lists ordered, sets and maps unordered).
func CanonKey(w W) string {
	var sb strings.Builder
	canonKey(&sb, w)
	return sb.String()
}

func canonKey(sb *strings.Builder, w W) {
	switch w.T {
	case TBool:
		fmt.Fprintf(sb, "b%v", w.I != 0)
	case TI8, TI16, TI32, TI64:
		fmt.Fprintf(sb, "i%d.%d", w.T, w.I)
	case TDouble:
		f := math.Float64frombits(w.F)
		if f == 0 {
			f = 0
		}
		fmt.Fprintf(sb, "d%v", f)
	case TBinary:
		fmt.Fprintf(sb, "s%x", w.B)
	case TStruct:
		parts := make([]string, len(w.Fields))
		for i, f := range w.Fields {
			parts[i] = fmt.Sprintf("%d=%s", f.ID, CanonKey(f.V))
		}
		sort.Strings(parts)
		sb.WriteString("{" + strings.Join(parts, ",") + "}")
	case TList:
		fmt.Fprintf(sb, "l%d[", w.VT)
		for _, it := range w.Items {
			canonKey(sb, it)
			sb.WriteString(",")
		}
		sb.WriteString("]")
	case TSet:
		parts := make([]string, len(w.Items))
		for i, it := range w.Items {
			parts[i] = CanonKey(it)
		}
		sort.Strings(parts)
		fmt.Fprintf(sb, "S%d[%s]", w.VT, strings.Join(parts, ","))
	case TMap:
		var parts []string
		for i := 0; i+1 < len(w.Items); i += 2 {
			parts = append(parts, CanonKey(w.Items[i])+":"+CanonKey(w.Items[i+1]))
		}
		sort.Strings(parts)
		fmt.Fprintf(sb, "M%d.%d[%s]", w.KT, w.VT, strings.Join(parts, ","))
	}
}
