package refcodec

import (
	"encoding/binary"

	"verif/harness/core"
)

var evilLens = []uint32{0xffffffff, 0x7fffffff, 0x80000000, 0x7ffffffe, 1 << 16, 1 << 20, 1<<20 + 1, 1 << 24, 1 << 28, 0xfffffffe}

// AppendEvil encodes w but, with probability num/den at each site where the
// format carries a type byte, a length/count or a bool byte, writes something
// else: grammar-aware mutation of a valid encoding.
func AppendEvil(dst []byte, w W, r *core.Rand, num, den int) []byte {
	evil := func() bool { return r.Chance(num, den) }
	tb := func(t byte) byte {
		if !evil() {
			return t
		}
		switch r.Intn(3) {
		case 0:
			return AllTypes[r.Intn(len(AllTypes))]
		case 1:
			return []byte{0, 1, 5, 7, 9, 16, 17, 0x7f, 0x80, 0xff}[r.Intn(10)]
		}
		return byte(r.Uint64())
	}
	ln := func(n int) uint32 {
		if !evil() {
			return uint32(n)
		}
		switch r.Intn(4) {
		case 0:
			return evilLens[r.Intn(len(evilLens))]
		case 1:
			return uint32(n + 1)
		case 2:
			if n > 0 {
				return uint32(n - 1)
			}
			return 1
		}
		return uint32(r.Intn(300))
	}
	switch w.T {
	case TBool:
		if evil() {
			return append(dst, byte(r.Intn(254)+2))
		}
		return Append(dst, w)
	case TI8, TI16, TI32, TI64, TDouble:
		return Append(dst, w)
	case TBinary:
		dst = binary.BigEndian.AppendUint32(dst, ln(len(w.B)))
		return append(dst, w.B...)
	case TStruct:
		for _, f := range w.Fields {
			dst = append(dst, tb(f.V.T))
			dst = binary.BigEndian.AppendUint16(dst, uint16(f.ID))
			dst = AppendEvil(dst, f.V, r, num, den)
		}
		if evil() {
			return dst // missing stop byte
		}
		return append(dst, 0)
	case TMap:
		dst = append(dst, tb(w.KT), tb(w.VT))
		dst = binary.BigEndian.AppendUint32(dst, ln(len(w.Items)/2))
		for _, it := range w.Items {
			dst = AppendEvil(dst, it, r, num, den)
		}
		return dst
	case TSet, TList:
		dst = append(dst, tb(w.VT))
		dst = binary.BigEndian.AppendUint32(dst, ln(len(w.Items)))
		for _, it := range w.Items {
			dst = AppendEvil(dst, it, r, num, den)
		}
		return dst
	}
	return dst
}

// MutateBytes applies 1..3 byte-level edits: bit flip, byte overwrite, type
// code overwrite, 4-byte length overwrite, insertion, deletion, truncation.
func MutateBytes(b []byte, r *core.Rand) []byte {
	out := append([]byte{}, b...)
	for k := r.Range(1, 3); k > 0; k-- {
		if len(out) == 0 {
			out = append(out, byte(r.Uint64()))
			continue
		}
		p := r.Intn(len(out))
		switch r.Intn(8) {
		case 0:
			out[p] ^= 1 << uint(r.Intn(8))
		case 1:
			out[p] = byte(r.Uint64())
		case 2:
			out[p] = AllTypes[r.Intn(len(AllTypes))]
		case 3:
			if p+4 <= len(out) {
				binary.BigEndian.PutUint32(out[p:], evilLens[r.Intn(len(evilLens))])
			}
		case 4:
			ins := r.Bytes(r.Range(1, 4))
			out = append(out[:p], append(ins, out[p:]...)...)
		case 5:
			n := r.Range(1, 4)
			if p+n > len(out) {
				n = len(out) - p
			}
			out = append(out[:p], out[p+n:]...)
		case 6:
			out = out[:p]
		case 7:
			if p+4 <= len(out) {
				binary.BigEndian.PutUint32(out[p:], uint32(r.Intn(64)))
			}
		}
	}
	return out
}
