package refcodec

import (
	"math"

	"verif/harness/core"
)

// GenOpts bounds random wire trees.
type GenOpts struct {
	MaxDepth int
	MaxLen   int  // container length / field count
	MaxBin   int  // binary length for ordinary draws
	BigBin   bool // occasionally draw binaries around the 1 MiB threshold
	NaN      bool
	Budget   int // total node budget
}

var DefaultGen = GenOpts{MaxDepth: 5, MaxLen: 6, MaxBin: 24, NaN: true, Budget: 400}

var bigBinSizes = []int{1<<20 - 1, 1 << 20, 1<<20 + 1, 3 << 20}

// Gen draws a well-typed tree of type t.
func Gen(r *core.Rand, t byte, o GenOpts) W {
	b := o.Budget
	return gen(r, t, o, 0, &b)
}

// GenAny draws a tree of a random type.
func GenAny(r *core.Rand, o GenOpts) W {
	return Gen(r, AllTypes[r.Intn(len(AllTypes))], o)
}

func pickType(r *core.Rand, depth int, o GenOpts, budget *int) byte {
	if depth >= o.MaxDepth || *budget <= 0 {
		return AllTypes[r.Intn(7)]
	}
	return AllTypes[r.Intn(len(AllTypes))]
}

func gen(r *core.Rand, t byte, o GenOpts, depth int, budget *int) W {
	*budget--
	switch t {
	case TBool:
		return Bool(r.Bool())
	case TI8:
		return I8(int8(r.Int64()))
	case TI16:
		return I16(int16(r.Int64()))
	case TI32:
		return I32(int32(r.Int64()))
	case TI64:
		return I64(r.Int64())
	case TDouble:
		return Double(r.F64Bits(o.NaN))
	case TBinary:
		n := r.Intn(o.MaxBin + 1)
		if r.Chance(1, 4) {
			n = 0
		}
		if o.BigBin && depth <= 1 && r.Chance(1, 40) {
			n = bigBinSizes[r.Intn(len(bigBinSizes))]
		}
		return Binary(r.Bytes(n))
	}
	n := 0
	if depth < o.MaxDepth && *budget > 0 {
		n = r.Intn(o.MaxLen + 1)
		if r.Chance(1, 6) {
			n = 0
		}
	}
	switch t {
	case TStruct:
		w := W{T: TStruct}
		used := map[int16]bool{}
		for i := 0; i < n; i++ {
			var id int16
			switch r.Intn(4) {
			case 0:
				id = []int16{math.MinInt16, -1, 0, 1, math.MaxInt16, 255, 256, -256}[r.Intn(8)]
			case 1:
				id = int16(r.Uint64())
			default:
				id = int16(r.Intn(20) + 1)
			}
			if used[id] {
				continue
			}
			used[id] = true
			ft := pickType(r, depth+1, o, budget)
			w.Fields = append(w.Fields, Field{id, gen(r, ft, o, depth+1, budget)})
		}
		return w
	case TMap:
		kt := pickType(r, depth+1, o, budget)
		vt := pickType(r, depth+1, o, budget)
		w := W{T: TMap, KT: kt, VT: vt}
		for i := 0; i < n; i++ {
			w.Items = append(w.Items, gen(r, kt, o, depth+1, budget), gen(r, vt, o, depth+1, budget))
		}
		return w
	case TSet, TList:
		et := pickType(r, depth+1, o, budget)
		w := W{T: t, VT: et}
		for i := 0; i < n; i++ {
			w.Items = append(w.Items, gen(r, et, o, depth+1, budget))
		}
		return w
	}
	panic("gen: bad type")
}

// SmallShapes enumerates a finite family of small trees completely:
// all leaves over a boundary set, every container of depth 1 with at most 2
// elements over those leaves (2-element containers over a reduced leaf set),
// and every depth-2 container with at most 2 elements over a reduced depth-1
// family. The family is fixed, so "exhaustive" refers to exactly this list.
func SmallShapes() []W {
	leaves := map[byte][]W{
		TBool:   {Bool(false), Bool(true)},
		TI8:     {I8(0), I8(-1), I8(math.MinInt8), I8(math.MaxInt8)},
		TI16:    {I16(0), I16(-1), I16(math.MinInt16), I16(math.MaxInt16), I16(256)},
		TI32:    {I32(0), I32(-1), I32(math.MinInt32), I32(math.MaxInt32), I32(65536)},
		TI64:    {I64(0), I64(-1), I64(math.MinInt64), I64(math.MaxInt64), I64(1 << 32)},
		TDouble: {Double(0), Double(0x8000000000000000), Double(0x7ff0000000000000), Double(0xfff0000000000000), Double(0x7ff8000000000000), Double(0x7ff0000000000001), Double(1), Double(0x3ff0000000000000)},
		TBinary: {Binary([]byte{}), Binary([]byte{0}), Binary([]byte("a\xff\x00b"))},
	}
	reduced := map[byte][]W{}
	for t, ls := range leaves {
		reduced[t] = ls[:2]
	}
	scalarTypes := AllTypes[:7]
	ids := []int16{math.MinInt16, -1, 0, 1, math.MaxInt16}
	var out []W
	for _, t := range scalarTypes {
		out = append(out, leaves[t]...)
	}
	// depth 1
	var d1 []W
	containers := func(full, red map[byte][]W, types []byte) []W {
		var c []W
		// structs: 0, 1 and 2 fields
		c = append(c, Struct())
		for _, t := range types {
			for _, v := range full[t] {
				for _, id := range ids {
					c = append(c, Struct(Field{id, v}))
				}
			}
		}
		for _, t1 := range types {
			for _, t2 := range types {
				for _, v1 := range red[t1][:1] {
					for _, v2 := range red[t2][:1] {
						c = append(c, Struct(Field{ids[0], v1}, Field{ids[4], v2}), Struct(Field{2, v1}, Field{1, v2}))
					}
				}
			}
		}
		for _, ct := range []byte{TList, TSet} {
			for _, t := range types {
				c = append(c, W{T: ct, VT: t})
				for _, v := range full[t] {
					c = append(c, W{T: ct, VT: t, Items: []W{v}})
				}
				for _, v1 := range red[t] {
					for _, v2 := range red[t] {
						c = append(c, W{T: ct, VT: t, Items: []W{v1, v2}})
					}
				}
			}
		}
		for _, kt := range types {
			for _, vt := range types {
				c = append(c, W{T: TMap, KT: kt, VT: vt})
				for _, k := range full[kt] {
					for _, v := range red[vt] {
						c = append(c, W{T: TMap, KT: kt, VT: vt, Items: []W{k, v}})
					}
				}
				for _, k := range red[kt] {
					for _, v := range full[vt] {
						c = append(c, W{T: TMap, KT: kt, VT: vt, Items: []W{k, v}})
					}
				}
				k, v := red[kt], red[vt]
				c = append(c, W{T: TMap, KT: kt, VT: vt, Items: []W{k[0], v[0], k[1], v[1]}})
			}
		}
		return c
	}
	d1 = containers(leaves, reduced, scalarTypes)
	out = append(out, d1...)
	// depth 2: containers over a reduced depth-1 family (first, a 1-element and
	// a 2-element representative of every container type)
	d1full := map[byte][]W{}
	for _, w := range d1 {
		if len(d1full[w.T]) < 6 || (w.Count() == 2 && len(d1full[w.T]) < 9) || (w.T == TStruct && len(w.Fields) == 2 && len(d1full[w.T]) < 12) {
			d1full[w.T] = append(d1full[w.T], w)
		}
	}
	// containers demand homogeneous element types for list/set/map: element
	// "type" is the container kind, any inner shape is allowed by the format.
	d1red := map[byte][]W{}
	for t, ws := range d1full {
		d1red[t] = ws[:2]
	}
	for t, ls := range leaves { // allow mixing leaves in structs/maps of depth 2
		d1full[t] = ls[:2]
		d1red[t] = ls[:2]
	}
	out = append(out, containers(d1full, d1red, AllTypes)...)
	return out
}
