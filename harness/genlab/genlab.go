// Package genlab is the pipeline "generate programs -> real thriftrw CLI ->
// scratch Go module -> go build [-> driver]". It runs in the orchestrator and
// imports nothing from thriftrw; the code under test runs in the thriftrw
// binary, the Go compiler and the built driver.
package genlab

import (
	"bytes"
	"fmt"
	"os"
	"os/exec"
	"path/filepath"
	"regexp"
	"runtime"
	"sort"
	"strings"
	"sync"
	"time"

	"verif/harness/core"
	"verif/harness/idlm"
)

// CLIOpts is one option set of the thriftrw command line.
type CLIOpts struct {
	NoZap          bool
	StrictEnumText bool
	PerModule      bool   // one run per file with --no-recurse instead of one recursive run
	OutputFile     string // --output-file (implies per-module)
	InferRoot      bool   // do not pass --thrift-root
	Plugin         string // --plugin <name>; the executable thriftrw-plugin-<name> is looked up in PluginDir
}

// PluginDir is prepended to PATH of every CLI run that names a plugin.
var PluginDir string

func (o CLIOpts) String() string {
	s := fmt.Sprintf("nozap=%v strictenum=%v permodule=%v outfile=%q inferroot=%v", o.NoZap, o.StrictEnumText, o.PerModule, o.OutputFile, o.InferRoot)
	if o.Plugin != "" {
		s += " plugin=" + o.Plugin
	}
	return s
}

// Prog is one generated program in a batch.
type Prog struct {
	Index   uint64
	Seed    uint64
	Stream  string
	P       *idlm.Program
	Sem     idlm.SemOpts
	CLI     CLIOpts
	SrcDir  string // <batch>/src/p<i>
	PkgBase string // import path prefix: verifgen/p<i>
	GenOK   bool
	GenOut  string // stderr of the failing thriftrw run
	BuildOK bool
	Build   string // compiler diagnostics attributed to this program
	Moved   string // where the output tree went after it failed to build
}

type Batch struct {
	Dir   string // the scratch module root
	Progs []*Prog
}

// Files returns path -> text of a program.
func (p *Prog) Files() map[string]string {
	m := map[string]string{}
	for _, f := range p.P.Files {
		m[f.Path] = f.Text
	}
	return m
}

// ThriftRootRel is the thrift root relative to the program's source
// directory: "idl" when passed explicitly, else the deepest common ancestor
// directory of all files (what the CLI infers).
func (p *Prog) ThriftRootRel() string {
	if !p.CLI.InferRoot {
		return "idl"
	}
	var common []string
	for i, f := range p.P.Files {
		parts := strings.Split(filepath.Dir(f.Path), "/")
		if i == 0 {
			common = parts
			continue
		}
		k := 0
		for k < len(common) && k < len(parts) && common[k] == parts[k] {
			k++
		}
		common = common[:k]
	}
	return strings.Join(common, "/")
}

// GoPkg returns the import path of the package generated for a file.
func (p *Prog) GoPkg(f *idlm.File) string {
	rel := strings.TrimSuffix(strings.TrimPrefix(f.Path, p.ThriftRootRel()+"/"), ".thrift")
	return p.PkgBase + "/" + rel
}

// Spec says how to draw program i of a batch.
type Spec struct {
	Stream string
	From   uint64
	To     uint64
	Sem    func(i uint64, r *core.Rand) idlm.SemOpts
	CLI    func(i uint64, r *core.Rand) CLIOpts
	Layout func(i uint64, r *core.Rand) idlm.Layout
	// Mutate may alter the program after generation (hostile names etc.)
	Mutate func(i uint64, r *core.Rand, p *idlm.Program)
	// Base maps a program index to the index whose seed draws the program
	// before Mutate (nil = itself): lets two indices share one base program.
	Base func(i uint64) uint64
}

// Derive draws program i of a spec. The orchestrator and the driver call this
// with the same arguments and obtain the same program (and the same object
// graph), so the driver needs no serialised schema.
func Derive(seed uint64, spec Spec, i uint64) *Prog {
	bi := i
	if spec.Base != nil {
		bi = spec.Base(i)
	}
	rng := core.NewRand(seed, spec.Stream, bi)
	mrng := core.NewRand(seed, spec.Stream+"/mutate", i)
	pr := &Prog{Index: i, Seed: seed, Stream: spec.Stream, PkgBase: fmt.Sprintf("verifgen/p%d", i)}
	pr.Sem = spec.Sem(i, rng.Fork())
	pr.P = idlm.GenProgram(rng.Fork(), pr.Sem)
	if spec.Mutate != nil {
		spec.Mutate(i, mrng, pr.P)
	}
	lay := idlm.PlainLayout
	if spec.Layout != nil {
		lay = spec.Layout(i, rng.Fork())
	}
	pr.P.RenderAll(rng.Fork(), lay)
	if spec.CLI != nil {
		pr.CLI = spec.CLI(i, rng.Fork())
	}
	return pr
}

// Generate draws the programs, writes their sources and runs the real CLI.
func Generate(r *core.Run, thriftrw string, name string, spec Spec) *Batch {
	b := &Batch{Dir: filepath.Join(r.Scratch, name)}
	os.RemoveAll(b.Dir)
	os.MkdirAll(filepath.Join(b.Dir, "mod"), 0o755)
	for i := spec.From; i < spec.To; i++ {
		pr := Derive(r.Seed, spec, i)
		pr.SrcDir = filepath.Join(b.Dir, "src", fmt.Sprintf("p%d", i))
		for _, f := range pr.P.Files {
			full := filepath.Join(pr.SrcDir, f.Path)
			os.MkdirAll(filepath.Dir(full), 0o755)
			os.WriteFile(full, []byte(f.Text), 0o644)
		}
		b.Progs = append(b.Progs, pr)
	}
	// run the CLI for every program, in parallel
	var wg sync.WaitGroup
	work := make(chan *Prog)
	for w := 0; w < runtime.NumCPU(); w++ {
		wg.Add(1)
		go func() {
			defer wg.Done()
			for pr := range work {
				runCLI(b, thriftrw, pr)
			}
		}()
	}
	for _, pr := range b.Progs {
		work <- pr
	}
	close(work)
	wg.Wait()
	return b
}

// OutDir is the directory the CLI wrote program pr to.
func (b *Batch) OutDir(pr *Prog) string {
	if pr.Moved != "" {
		return pr.Moved
	}
	return filepath.Join(b.Dir, "mod", fmt.Sprintf("p%d", pr.Index))
}

// ProbeWithoutPlugin reruns the CLI for a program without its plugin, into a
// directory outside the module, and reports whether that run succeeds.
func (b *Batch) ProbeWithoutPlugin(thriftrw string, pr *Prog) (bool, string) {
	cp := *pr
	cp.CLI.Plugin = ""
	out := filepath.Join(b.Dir, "probe", fmt.Sprintf("p%d", pr.Index))
	runCLITo(thriftrw, &cp, out)
	os.RemoveAll(out)
	return cp.GenOK, cp.GenOut
}

func runCLI(b *Batch, thriftrw string, pr *Prog) { runCLITo(thriftrw, pr, b.OutDir(pr)) }

func runCLITo(thriftrw string, pr *Prog, out string) {
	base := []string{"--out", out, "--pkg-prefix", pr.PkgBase}
	if !pr.CLI.InferRoot {
		base = append(base, "--thrift-root", filepath.Join(pr.SrcDir, "idl"))
	}
	if pr.CLI.NoZap {
		base = append(base, "--no-zap")
	}
	if pr.CLI.StrictEnumText {
		base = append(base, "--enum-text-marshal-strict")
	}
	if pr.CLI.Plugin != "" {
		base = append(base, "--plugin", pr.CLI.Plugin)
	}
	var inputs [][]string
	if pr.CLI.PerModule || pr.CLI.OutputFile != "" {
		for _, f := range pr.P.Files {
			a := append(append([]string{}, base...), "--no-recurse")
			if pr.CLI.OutputFile != "" {
				a = append(a, "--output-file", pr.CLI.OutputFile)
			}
			inputs = append(inputs, append(a, filepath.Join(pr.SrcDir, f.Path)))
		}
	} else {
		inputs = [][]string{append(append([]string{}, base...), filepath.Join(pr.SrcDir, pr.P.Files[0].Path))}
	}
	pr.GenOK = true
	for _, args := range inputs {
		cmd := exec.Command(thriftrw, args...)
		if pr.CLI.Plugin != "" {
			cmd.Env = append(os.Environ(), "PATH="+PluginDir+":"+os.Getenv("PATH"))
		}
		var se bytes.Buffer
		cmd.Stderr = &se
		cmd.Stdout = &se
		done := make(chan error, 1)
		cmd.Start()
		go func() { done <- cmd.Wait() }()
		select {
		case err := <-done:
			if err != nil {
				pr.GenOK = false
				pr.GenOut = se.String()
			}
		case <-time.After(120 * time.Second):
			cmd.Process.Kill()
			<-done
			pr.GenOK = false
			pr.GenOut = "TIMEOUT after 120s\n" + se.String()
		}
		if !pr.GenOK {
			os.RemoveAll(out) // do not leave a partial tree in the module
			return
		}
	}
}

var pkgHeaderRe = regexp.MustCompile(`(?m)^# (verifgen/p(\d+)/\S*)`)

// InitModule writes go.mod/go.sum of the scratch module.
func (b *Batch) InitModule() {
	mod := "module verifgen\n\ngo 1.22.1\n\nrequire (\n\tgo.uber.org/thriftrw v0.0.0\n\tverif/harness v0.0.0\n)\n\nreplace go.uber.org/thriftrw => /repo\n\nreplace verif/harness => " + core.HarnessDir + "\n"
	os.WriteFile(filepath.Join(b.Dir, "mod", "go.mod"), []byte(mod), 0o644)
	sum, _ := os.ReadFile("/repo/go.sum")
	os.WriteFile(filepath.Join(b.Dir, "mod", "go.sum"), sum, 0o644)
}

// Unattributed marks build output that failed without naming any program.
const Unattributed = "UNATTRIBUTED BUILD FAILURE\n"

var diagLineRe = regexp.MustCompile(`(?m)^(?:\./)?p(\d+)/[^\s:]+:\d+(?::\d+)?: .*$`)

// BuildAll runs `go build ./...` over the module and attributes diagnostics
// to programs by import path (type errors come in "# pkg" blocks) or by file
// path (syntax and other load errors come as bare lines, and then NOTHING else
// is compiled). Programs with diagnostics are moved out of the module and the
// build is repeated until what remains builds, so one broken package cannot
// hide the diagnostics of the others. It returns the raw output of all rounds;
// a failure that names no program is prefixed with Unattributed.
func (b *Batch) BuildAll(extra ...string) (string, error) {
	b.InitModule()
	for _, pr := range b.Progs {
		pr.BuildOK = pr.GenOK
	}
	byIndex := map[uint64]*Prog{}
	for _, pr := range b.Progs {
		byIndex[pr.Index] = pr
	}
	all := ""
	for round := 0; ; round++ {
		args := append([]string{"build"}, extra...)
		args = append(args, "./...")
		cmd := exec.Command("go", args...)
		cmd.Dir = filepath.Join(b.Dir, "mod")
		cmd.Env = append(os.Environ(), "GOFLAGS=-mod=mod")
		out, err := cmd.CombinedOutput()
		text := string(out)
		all += text
		blamed := map[uint64]bool{}
		add := func(n uint64, block string) {
			if pr := byIndex[n]; pr != nil {
				pr.BuildOK = false
				blamed[n] = true
				if len(pr.Build) < 6000 {
					pr.Build += block
				}
			}
		}
		// "# pkg" blocks
		idx := pkgHeaderRe.FindAllStringSubmatchIndex(text, -1)
		covered := make([]bool, len(text)+1)
		for k, m := range idx {
			end := len(text)
			if k+1 < len(idx) {
				end = idx[k+1][0]
			}
			var n uint64
			fmt.Sscan(text[m[4]:m[5]], &n)
			add(n, text[m[0]:end])
			for i := m[0]; i < end; i++ {
				covered[i] = true
			}
		}
		// bare diagnostic lines outside any block
		for _, m := range diagLineRe.FindAllStringSubmatchIndex(text, -1) {
			if covered[m[0]] {
				continue
			}
			var n uint64
			fmt.Sscan(text[m[2]:m[3]], &n)
			add(n, text[m[0]:m[1]]+"\n")
		}
		if err == nil {
			return all, nil
		}
		if len(blamed) == 0 || round >= 12 {
			return Unattributed + all, err
		}
		for n := range blamed {
			pr := byIndex[n]
			dst := filepath.Join(b.Dir, "broken", fmt.Sprintf("p%d", n))
			os.MkdirAll(filepath.Dir(dst), 0o755)
			if os.Rename(b.OutDir(pr), dst) == nil {
				pr.Moved = dst
			}
		}
	}
}

// Summary helpers ---------------------------------------------------------------

// ErrorClass reduces a generator or compiler message to a coarse class for
// triage and evidence.
func ErrorClass(s string) string {
	s = strings.TrimSpace(s)
	lines := strings.Split(s, "\n")
	l := lines[0]
	for _, x := range lines {
		if strings.Contains(x, ".go:") {
			l = x
			break
		}
	}
	l = regexp.MustCompile(`"[^"]*"`).ReplaceAllString(l, `"…"`)
	l = regexp.MustCompile(`[A-Za-z_]*[0-9][A-Za-z0-9_]*`).ReplaceAllString(l, "N")
	l = regexp.MustCompile(`/\S+`).ReplaceAllString(l, "/…")
	if len(l) > 160 {
		l = l[:160]
	}
	return l
}

func SortedKeys(m map[string]int) []string {
	k := make([]string, 0, len(m))
	for x := range m {
		k = append(k, x)
	}
	sort.Slice(k, func(i, j int) bool { return m[k[i]] > m[k[j]] })
	return k
}

// Remove deletes the batch's scratch tree.
func (b *Batch) Remove() { os.RemoveAll(b.Dir) }
