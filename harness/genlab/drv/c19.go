package drv

import (
	"errors"
	"fmt"
	"reflect"

	"verif/harness/core"
	"verif/harness/genlab/bridge"
	"verif/harness/idlm"
)

func init() { monitors["c19"] = c19 }

var errType = reflect.TypeOf((*error)(nil)).Elem()

type plainError struct{ s string }

func (e *plainError) Error() string { return e.s }

// guardReflect calls a generated helper through reflection.
func guardReflect(fn reflect.Value, in []reflect.Value) (out []reflect.Value, pan string) {
	defer func() {
		if p := recover(); p != nil {
			pan = fmt.Sprint(p)
		}
	}()
	return fn.Call(in), ""
}

func asError(v reflect.Value) error {
	if v.IsNil() {
		return nil
	}
	return v.Interface().(error)
}

// c19: the generated response helpers map a return value or a declared
// exception to the result struct and back, and refuse undeclared errors.
func c19(c *core.Child, reg *Registry) {
	var funcs []*FuncEntry
	for i := range reg.Funcs {
		if reg.Funcs[i].Fn != nil {
			funcs = append(funcs, &reg.Funcs[i])
		}
	}
	if len(funcs) == 0 {
		return
	}
	// exception types per program
	excs := map[uint64][]*TypeEntry{}
	for i := range reg.Types {
		e := &reg.Types[i]
		if s, ok := e.Def.(*idlm.Struct); ok && s.Kind == idlm.KException {
			excs[e.Prog] = append(excs[e.Prog], e)
		}
	}
	c.Loop(func(i uint64, r *core.Rand) {
		e := funcs[int(i)%len(funcs)]
		id := fmt.Sprintf("p%d %s %s.%s", e.Prog, e.File, e.Service, e.Func)
		c.Count("cases", 1)
		h := reflect.ValueOf(e.Helper)
		files := func() map[string]string {
			m := map[string]string{}
			for _, f := range reg.progs[e.Prog].P.Files {
				m[f.Path] = f.Text
			}
			return m
		}
		bad := func(what string, extra map[string]any) {
			d := map[string]any{"function": id, "files": files()}
			for k, v := range extra {
				d[k] = v
			}
			c.Violation(i, what+"  ["+id+"]", "", d)
		}
		seen := func(kind string, v *idlm.LVal) { c.Nontrivial(core.HashBytes([]byte(id), []byte(kind), []byte(idlm.LKeyBits(v)))) }

		// --- Args helper: fields of the args struct are the parameters, in order
		argsFn := h.FieldByName("Args")
		if !argsFn.IsValid() || argsFn.Type().NumIn() != len(e.Fn.Params) {
			c.Count("inconclusive_shape", 1)
			return
		}
		var in []reflect.Value
		var want []*idlm.LVal
		for k, p := range e.Fn.Params {
			pt := argsFn.Type().In(k)
			if p.Req != idlm.ReqRequired && r.Chance(1, 3) {
				in = append(in, reflect.Zero(pt))
				want = append(want, nil)
				continue
			}
			v := idlm.GenValue(r, p.Type, idlm.DefaultVal)
			gv, err := bridge.Inject(v, p.Type, pt)
			if err != nil {
				c.Count("inconclusive_shape", 1)
				return
			}
			in = append(in, gv)
			want = append(want, v)
		}
		out, pan := guardReflect(argsFn, in)
		if pan != "" {
			bad("Helper.Args panics: "+pan, nil)
			return
		}
		as := out[0]
		if as.IsNil() || as.Elem().NumField() != len(e.Fn.Params) {
			bad("Helper.Args returns nil or a struct with another number of fields", nil)
			return
		}
		for k, p := range e.Fn.Params {
			got, err := bridge.Extract(as.Elem().Field(k), p.Type)
			if err != nil {
				c.Count("inconclusive_shape", 1)
				continue
			}
			if (got == nil) != (want[k] == nil) || (got != nil && idlm.LKeyBits(got) != idlm.LKeyBits(want[k])) {
				bad(fmt.Sprintf("Helper.Args stores another value in the field of parameter %s", p.Name), map[string]any{"want": idlm.LKeyBits(want[k]), "got": idlm.LKeyBits(got)})
			}
		}
		c.Count("args_calls", 1)
		if e.Fn.OneWay || e.NewResult == nil {
			c.Count("oneway_functions_seen", 1)
			return
		}

		wrap, unwrap, isExc := h.FieldByName("WrapResponse"), h.FieldByName("UnwrapResponse"), h.FieldByName("IsException")
		if !wrap.IsValid() || !unwrap.IsValid() || !isExc.IsValid() {
			c.Count("inconclusive_shape", 1)
			return
		}
		void := e.Fn.Return == nil
		if (wrap.Type().NumIn() == 1) != void {
			bad("WrapResponse takes a value for a void function or none for a non-void one", nil)
			return
		}
		wrapCall := func(ret reflect.Value, err reflect.Value) ([]reflect.Value, string) {
			if void {
				return guardReflect(wrap, []reflect.Value{err})
			}
			return guardReflect(wrap, []reflect.Value{ret, err})
		}
		var zeroRet reflect.Value
		if !void {
			zeroRet = reflect.Zero(wrap.Type().In(0))
		}
		nilErr := reflect.Zero(errType)
		// field layout of the result struct: [Success] + exceptions in order
		excField := func(res reflect.Value, k int) reflect.Value {
			if void {
				return res.Elem().Field(k)
			}
			return res.Elem().Field(k + 1)
		}
		checkOthersNil := func(res reflect.Value, except int, what string) {
			n := res.Elem().NumField()
			for f := 0; f < n; f++ {
				if f == except {
					continue
				}
				fv := res.Elem().Field(f)
				switch fv.Kind() {
				case reflect.Ptr, reflect.Slice, reflect.Map:
					if !fv.IsNil() {
						bad(what+": result field "+res.Elem().Type().Field(f).Name+" is set as well", nil)
					}
				}
			}
		}
		wantFields := len(e.Fn.Throws)
		if !void {
			wantFields++
		}
		if probe := reflect.ValueOf(e.NewResult()); probe.Elem().NumField() != wantFields {
			c.Count("inconclusive_shape", 1)
			return
		}

		mode := r.Intn(4)
		if len(e.Fn.Throws) > 0 && r.Chance(1, 2) {
			mode = 1
		}
		switch {
		case mode == 0 || (mode == 1 && len(e.Fn.Throws) == 0):
			// success
			var v *idlm.LVal
			ret := zeroRet
			if !void {
				v = idlm.GenValue(r, e.Fn.Return, idlm.DefaultVal)
				gv, err := bridge.Inject(v, e.Fn.Return, wrap.Type().In(0))
				if err != nil {
					c.Count("inconclusive_shape", 1)
					return
				}
				ret = gv
			}
			out, pan := wrapCall(ret, nilErr)
			if pan != "" {
				bad("WrapResponse panics on a return value: "+pan, nil)
				return
			}
			if err := asError(out[1]); err != nil || out[0].IsNil() {
				bad(fmt.Sprintf("WrapResponse refuses a return value (err=%v)", err), map[string]any{"value": idlm.LKeyBits(v)})
				return
			}
			if void {
				checkOthersNil(out[0], -1, "after WrapResponse(nil)")
			} else {
				got, xerr := bridge.Extract(out[0].Elem().Field(0), e.Fn.Return)
				if xerr != nil {
					c.Count("inconclusive_shape", 1)
				} else if got == nil || idlm.LKeyBits(got) != idlm.LKeyBits(v) {
					bad("WrapResponse stores another value in the result struct", map[string]any{"want": idlm.LKeyBits(v), "got": idlm.LKeyBits(got)})
				}
				checkOthersNil(out[0], 0, "after WrapResponse(value, nil)")
			}
			back, pan := guardReflect(unwrap, []reflect.Value{out[0]})
			if pan != "" {
				bad("UnwrapResponse panics on a success result: "+pan, nil)
				return
			}
			if err := asError(back[len(back)-1]); err != nil {
				bad(fmt.Sprintf("UnwrapResponse(WrapResponse(value, nil)) fails: %v", err), nil)
				return
			}
			if !void {
				got, xerr := bridge.Extract(back[0], e.Fn.Return)
				if xerr != nil {
					c.Count("inconclusive_shape", 1)
				} else if got == nil || idlm.LKeyBits(got) != idlm.LKeyBits(v) {
					bad("UnwrapResponse(WrapResponse(value, nil)) returns another value", map[string]any{"want": idlm.LKeyBits(v), "got": idlm.LKeyBits(got)})
				}
			}
			seen("success", v)
			c.Count("success_round_trips", 1)
		case mode == 1:
			// a declared exception
			k := r.Intn(len(e.Fn.Throws))
			th := e.Fn.Throws[k]
			xv := idlm.GenValue(r, th.Type, idlm.DefaultVal)
			probe := reflect.ValueOf(e.NewResult())
			ft := excField(probe, k).Type()
			gx, err := bridge.Inject(xv, th.Type, ft)
			if err != nil || !gx.Type().Implements(errType) {
				c.Count("inconclusive_shape", 1)
				return
			}
			if o, pan := guardReflect(isExc, []reflect.Value{gx}); pan != "" || !o[0].Bool() {
				bad("IsException denies a declared exception ("+th.Name+") "+pan, nil)
			}
			out, pan := wrapCall(zeroRet, gx)
			if pan != "" {
				bad("WrapResponse panics on a declared exception: "+pan, nil)
				return
			}
			if err := asError(out[1]); err != nil || out[0].IsNil() {
				bad(fmt.Sprintf("WrapResponse refuses the declared exception %s (err=%v)", th.Name, err), nil)
				return
			}
			fv := excField(out[0], k)
			if fv.IsNil() || fv.Pointer() != gx.Pointer() {
				bad("WrapResponse does not store the declared exception "+th.Name+" in its result field", nil)
			}
			fi := k
			if !void {
				fi++
			}
			checkOthersNil(out[0], fi, "after WrapResponse(_, "+th.Name+")")
			back, pan := guardReflect(unwrap, []reflect.Value{out[0]})
			if pan != "" {
				bad("UnwrapResponse panics on an exception result: "+pan, nil)
				return
			}
			berr := back[len(back)-1]
			if berr.IsNil() || berr.Elem().Kind() != reflect.Ptr || berr.Elem().Pointer() != gx.Pointer() {
				bad("UnwrapResponse does not return the declared exception "+th.Name+" that was wrapped", nil)
			}
			if !void && !back[0].IsZero() {
				bad("UnwrapResponse returns a value together with an exception", nil)
			}
			seen("exception "+th.Name, xv)
			c.Count("exception_round_trips", 1)
		default:
			// an error the function does not declare
			var ev reflect.Value
			what := "a plain error"
			if mode == 3 {
				declared := map[idlm.Def]bool{}
				for _, th := range e.Fn.Throws {
					declared[th.Type.Root().Target] = true
				}
				var cands []*TypeEntry
				for _, x := range excs[e.Prog] {
					if !declared[x.Def] {
						cands = append(cands, x)
					}
				}
				if len(cands) > 0 {
					x := cands[r.Intn(len(cands))]
					_, rv, err := x.inject(idlm.GenValue(r, x.Type, idlm.DefaultVal))
					if err == nil && rv.Type().Implements(errType) {
						ev = rv
						what = "exception " + x.Name + " which the function does not declare"
						c.Count("undeclared_exception_types_tried", 1)
					}
				}
			}
			if !ev.IsValid() {
				ev = reflect.ValueOf(&plainError{"boom"})
			}
			_ = errors.New
			if o, pan := guardReflect(isExc, []reflect.Value{ev}); pan != "" || o[0].Bool() {
				bad("IsException claims "+what+" "+pan, nil)
			}
			out, pan := wrapCall(zeroRet, ev)
			if pan != "" {
				bad("WrapResponse panics on "+what+": "+pan, nil)
				return
			}
			if err := asError(out[1]); err == nil {
				bad("WrapResponse accepts "+what, nil)
			} else if !out[0].IsNil() {
				bad("WrapResponse returns a result together with an error for "+what, nil)
			}
			seen("undeclared "+what, nil)
			c.Count("undeclared_errors_refused", 1)
		}
		if i%211 == 0 {
			c.Sample(map[string]any{"function": id, "params": len(e.Fn.Params), "throws": len(e.Fn.Throws), "void": void})
		}
	})
}
