// Package drv is the library half of a generated driver: the driver's main.go
// is a registry of constructors for the generated types of a batch of
// programs; drv regenerates the same programs from their seeds, binds registry
// entries to model definitions and runs a monitor over them as a child of the
// orchestrator.
package drv

import (
	"bytes"
	"fmt"
	"reflect"
	"runtime/debug"
	"strings"

	"go.uber.org/thriftrw/protocol/binary"
	"go.uber.org/thriftrw/protocol/stream"
	"go.uber.org/thriftrw/wire"
	"verif/harness/core"
	"verif/harness/genlab"
	"verif/harness/genlab/bridge"
	"verif/harness/idlm"
	rc "verif/harness/refcodec"
	wb "verif/harness/wbridge"
)

type TypeEntry struct {
	Prog uint64
	File string
	Name string
	Kind string // struct | enum | typedef
	New  func() any

	Def  idlm.Def
	Type *idlm.TypeRef
	P    *idlm.Program
}

type ValueEntry struct {
	Prog uint64
	File string
	Name string
	Get  func() any

	Def idlm.Def
}

type FuncEntry struct {
	Prog      uint64
	File      string
	Service   string
	Func      string
	NewArgs   func() any
	NewResult func() any
	Helper    any

	Svc *idlm.Service
	Fn  *idlm.Function
	F   *idlm.File
}

type Registry struct {
	Types    []TypeEntry
	Consts   []ValueEntry
	Defaults []ValueEntry
	Funcs    []FuncEntry

	progs map[uint64]*genlab.Prog
}

// Generated struct-like types, typedefs and enums all offer these.
type thriftValue interface {
	ToWire() (wire.Value, error)
	FromWire(wire.Value) error
	Encode(stream.Writer) error
	Decode(stream.Reader) error
}

var monitors = map[string]func(*core.Child, *Registry){}

// Main is called by the generated main.go.
func Main(reg *Registry) {
	m := map[string]func(*core.Child){}
	for name, fn := range monitors {
		fn := fn
		m[name] = func(c *core.Child) {
			reg.bind(c)
			fn(c, reg)
		}
	}
	core.ChildMain(m)
}

// bind regenerates the batch's programs and attaches model definitions to
// registry entries.
func (reg *Registry) bind(c *core.Child) {
	off := map[string]bool{}
	for _, f := range strings.Split(c.Arg("off", ""), ",") {
		if f != "" {
			off[f] = true
		}
	}
	spec := genlab.NamedSpec(c.Arg("spec", "safe"), off, 0, 0)
	reg.progs = map[uint64]*genlab.Prog{}
	get := func(i uint64) *genlab.Prog {
		if p, ok := reg.progs[i]; ok {
			return p
		}
		p := genlab.Derive(c.Seed, spec, i)
		reg.progs[i] = p
		return p
	}
	find := func(prog uint64, file, name string) (idlm.Def, *idlm.File, *idlm.Program) {
		p := get(prog)
		for _, f := range p.P.Files {
			if f.Path != file {
				continue
			}
			for _, d := range f.Defs {
				if d.DefName() == name {
					return d, f, p.P
				}
			}
		}
		panic(fmt.Sprintf("drv: registry entry %d %s %s has no model definition (program regeneration diverged)", prog, file, name))
	}
	for i := range reg.Types {
		e := &reg.Types[i]
		d, f, p := find(e.Prog, e.File, e.Name)
		e.Def, e.P = d, p
		e.Type = idlm.TypeOf(f, d)
	}
	for i := range reg.Consts {
		e := &reg.Consts[i]
		e.Def, _, _ = find(e.Prog, e.File, e.Name)
	}
	for i := range reg.Defaults {
		e := &reg.Defaults[i]
		e.Def, _, _ = find(e.Prog, e.File, e.Name)
	}
	for i := range reg.Funcs {
		e := &reg.Funcs[i]
		d, f, _ := find(e.Prog, e.File, e.Service)
		e.Svc = d.(*idlm.Service)
		e.F = f
		for _, fn := range e.Svc.Funcs {
			if fn.Name == e.Func {
				e.Fn = fn
			}
		}
	}
}

// ---- helpers shared by the monitors ------------------------------------------------

// result of calling into generated code
type callResult struct {
	bytes []byte
	err   error
	pan   string
}

func guardCall(fn func() ([]byte, error)) (res callResult) {
	defer func() {
		if p := recover(); p != nil {
			res.pan = fmt.Sprint(p) + "\n" + string(debug.Stack())
		}
	}()
	b, err := fn()
	return callResult{bytes: b, err: err}
}

// encodeStream runs x.Encode on a stream writer.
func encodeStream(x thriftValue) callResult {
	return guardCall(func() ([]byte, error) {
		var buf bytes.Buffer
		sw := binary.Default.Writer(&buf)
		err := x.Encode(sw)
		sw.Close()
		return buf.Bytes(), err
	})
}

// encodeWire runs binary.Default.Encode(x.ToWire()).
func encodeWire(x thriftValue) callResult {
	return guardCall(func() ([]byte, error) {
		v, err := x.ToWire()
		if err != nil {
			return nil, err
		}
		var buf bytes.Buffer
		err = binary.Default.Encode(v, &buf)
		return buf.Bytes(), err
	})
}

// decodeStream runs x.Decode over a chunked reader.
func decodeStream(x thriftValue, b []byte, class int, seed uint64) callResult {
	return guardCall(func() ([]byte, error) {
		sr := binary.Default.Reader(wb.NewChunkReader(b, class, seed))
		err := x.Decode(sr)
		sr.Close()
		return nil, err
	})
}

// decodeWire runs x.FromWire(binary.Default.Decode(b)).
func decodeWire(x thriftValue, b []byte, t byte) callResult {
	return guardCall(func() ([]byte, error) {
		v, err := binary.Default.Decode(bytes.NewReader(b), wire.Type(t))
		if err != nil {
			return nil, err
		}
		return nil, x.FromWire(v)
	})
}

// newValue allocates a fresh generated value of the entry's type.
func (e *TypeEntry) newValue() (thriftValue, reflect.Value) {
	x := e.New()
	tv, ok := x.(thriftValue)
	if !ok {
		panic(fmt.Sprintf("drv: %T does not have ToWire/FromWire/Encode/Decode", x))
	}
	return tv, reflect.ValueOf(x)
}

// inject builds a generated Go value from a logical value.
func (e *TypeEntry) inject(v *idlm.LVal) (thriftValue, reflect.Value, error) {
	tv, rv := e.newValue()
	val, err := bridge.Inject(v, e.Type, rv.Type().Elem())
	if err != nil {
		return nil, rv, err
	}
	rv.Elem().Set(val)
	return tv, rv, nil
}

func (e *TypeEntry) extract(rv reflect.Value) (*idlm.LVal, error) {
	return bridge.Extract(rv.Elem(), e.Type)
}

func (e *TypeEntry) wireType() byte { return idlm.WireType(e.Type) }

func (e *TypeEntry) id() string { return fmt.Sprintf("p%d %s %s", e.Prog, e.File, e.Name) }

func hx(b []byte) string {
	if len(b) > 200 {
		return fmt.Sprintf("%x…(+%d)", b[:200], len(b)-200)
	}
	return fmt.Sprintf("%x", b)
}

func progFiles(e *TypeEntry) map[string]string {
	m := map[string]string{}
	for _, f := range e.P.Files {
		m[f.Path] = f.Text
	}
	return m
}

// projectBytes decodes bytes with the reference codec and projects them onto
// the entry's type.
func (e *TypeEntry) projectBytes(b []byte) (*idlm.LVal, error) {
	w, n, err := rc.Decode(b, e.wireType())
	if err != nil {
		return nil, fmt.Errorf("reference decoder: %v", err)
	}
	if n != len(b) {
		return nil, fmt.Errorf("reference decoder consumed %d of %d bytes", n, len(b))
	}
	return idlm.Project(w, e.Type)
}

func bridgeExtract(rv reflect.Value, t *idlm.TypeRef) (*idlm.LVal, error) {
	if !rv.IsValid() {
		return nil, nil
	}
	return bridge.Extract(rv, t)
}
