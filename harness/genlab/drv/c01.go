package drv

import (
	"fmt"
	"reflect"
	"strings"

	"verif/harness/core"
	"verif/harness/idlm"
	rc "verif/harness/refcodec"
	wb "verif/harness/wbridge"
)

func init() {
	monitors["c01"] = c01
	monitors["c01consts"] = c01Consts
}

func firstLine(s string) string { return strings.SplitN(s, "\n", 2)[0] }

// c01: serialisers against the reference codec, deserialisers against
// reference encodings, schema-violating values refused.
func c01(c *core.Child, reg *Registry) {
	if len(reg.Types) == 0 {
		return
	}
	c.Loop(func(i uint64, r *core.Rand) {
		e := &reg.Types[int(i)%len(reg.Types)]
		v := idlm.GenValue(r, e.Type, idlm.DefaultVal)
		want := idlm.FillDefaults(v)
		c.Count("cases", 1)
		c.Count("kind_"+e.Kind, 1)
		c.DumpCase(map[string]any{"type": e.id(), "value": idlm.LKeyBits(v)})
		det := func(extra map[string]any) map[string]any {
			d := map[string]any{"type": e.id(), "value": idlm.LKeyBits(v), "expected_after_defaults": idlm.LKeyBits(want), "files": progFiles(e)}
			for k, x := range extra {
				d[k] = x
			}
			return d
		}
		bad := func(what string, extra map[string]any) {
			c.Violation(i, what+"  ["+e.id()+"]", "", det(extra))
		}
		x, rv, err := e.inject(v)
		if err != nil {
			c.Count("inconclusive_shape", 1)
			c.Inconclusive(fmt.Sprintf("%s: %v", e.id(), err))
			return
		}
		c.Nontrivial(core.HashBytes([]byte(e.id()), []byte(idlm.LKeyBits(v))))
		// (a) both serialisers
		for name, res := range map[string]callResult{"Encode(stream.Writer)": encodeStream(x), "binary.Encode(ToWire())": encodeWire(x)} {
			switch {
			case res.pan != "":
				bad(name+" panics on a valid value: "+firstLine(res.pan), map[string]any{"panic": res.pan})
			case res.err != nil:
				bad(name+" fails on a valid value: "+res.err.Error(), nil)
			default:
				got, perr := e.projectBytes(res.bytes)
				if perr != nil {
					bad(name+" output is not an encoding of the type: "+perr.Error(), map[string]any{"bytes": hx(res.bytes)})
				} else if idlm.LKeyBits(got) != idlm.LKeyBits(want) {
					bad(name+" output decodes (reference codec) to a different value", map[string]any{"bytes": hx(res.bytes), "decoded": idlm.LKeyBits(got)})
				}
			}
		}
		// (b) both deserialisers on a reference encoding (shuffled field / entry order)
		ref := rc.Encode(idlm.Lower(v, e.Type, idlm.LowerOpts{R: r.Fork(), Shuffle: r.Bool()}))
		class := r.Intn(wb.NumChunkings)
		for _, path := range []string{"Decode(stream.Reader)", "FromWire(binary.Decode())"} {
			y, yrv := e.newValue()
			var res callResult
			if path[0] == 'D' {
				res = decodeStream(y, ref, class, r.Uint64())
			} else {
				res = decodeWire(y, ref, e.wireType())
			}
			switch {
			case res.pan != "":
				bad(path+" panics on a reference encoding: "+firstLine(res.pan), map[string]any{"panic": res.pan, "bytes": hx(ref)})
			case res.err != nil:
				bad(path+" rejects a reference encoding of a valid value: "+res.err.Error(), map[string]any{"bytes": hx(ref), "chunking": wb.ChunkNames[class]})
			default:
				got, xerr := e.extract(yrv)
				if xerr != nil {
					c.Count("inconclusive_shape", 1)
				} else if idlm.LKeyBits(got) != idlm.LKeyBits(want) {
					bad(path+" yields a different value", map[string]any{"bytes": hx(ref), "got": idlm.LKeyBits(got)})
				}
			}
		}
		// (c) schema-violating variants must be refused by both serialisers
		if e.Kind == "struct" {
			if what, ok := violate(rv, e, r); ok {
				c.Count("invalid_values", 1)
				c.Count("invalid_"+strings.Fields(what)[0], 1)
				for name, res := range map[string]callResult{"Encode(stream.Writer)": encodeStream(x), "binary.Encode(ToWire())": encodeWire(x)} {
					if res.pan != "" {
						bad(name+" panics on a schema-violating value ("+what+"): "+firstLine(res.pan), map[string]any{"panic": res.pan})
					} else if res.err == nil {
						bad(name+" encodes a schema-violating value ("+what+") instead of reporting an error", map[string]any{"bytes": hx(res.bytes)})
					}
				}
			}
		}
		// accessors
		if e.Kind == "struct" {
			x2, rv2, _ := e.inject(v)
			_ = x2
			accessors(c, i, e, rv2, v, bad)
		}
		if i%173 == 0 {
			c.Sample(map[string]any{"type": e.id(), "value": idlm.LKeyBits(v), "reference_bytes": hx(ref)})
		}
	})
}

// violate turns the valid Go value behind rv into one that breaks the schema,
// if the type offers a way: required pointer-like field nil, union with 0 or 2
// members, nil element inside a container. (A nil required LIST is documented
// to encode as an empty list and is not used.)
func violate(rv reflect.Value, e *TypeEntry, r *core.Rand) (string, bool) {
	d := e.Def.(*idlm.Struct)
	sv := rv.Elem()
	if d.Kind == idlm.KUnion {
		var set []int
		for k := 0; k < sv.NumField(); k++ {
			if !sv.Field(k).IsZero() {
				set = append(set, k)
			}
		}
		if r.Bool() || len(d.Fields) < 2 {
			for _, k := range set {
				sv.Field(k).Set(reflect.Zero(sv.Field(k).Type()))
			}
			return "union with no member set", true
		}
		// set a second member: find another field and give it a non-zero value
		for k := 0; k < sv.NumField(); k++ {
			if len(set) > 0 && k == set[0] {
				continue
			}
			fv := sv.Field(k)
			nz := nonZero(fv.Type())
			if nz.IsValid() {
				fv.Set(nz)
				return "union with two members set", true
			}
		}
		return "", false
	}
	// required field of pointer/map/slice(binary, set) shape set to nil
	var cands []int
	for k, fl := range d.Fields {
		if fl.Req == idlm.ReqRequired && fl.Default == nil {
			rt := fl.Type.Root()
			isList := rt.Kind == idlm.TList
			f := sv.Field(k)
			switch f.Kind() {
			case reflect.Ptr, reflect.Map:
				cands = append(cands, k)
			case reflect.Slice:
				if !isList {
					cands = append(cands, k)
				}
			}
		}
	}
	// nil element inside a container: pointers, nested containers and binaries
	// as list/set elements, map values, and the Key/Value of the pair slices
	// generated for maps with unhashable keys
	nilable := func(t reflect.Type) bool {
		switch t.Kind() {
		case reflect.Ptr, reflect.Map, reflect.Slice:
			return true
		}
		return false
	}
	isPair := func(t reflect.Type) bool {
		return t.Kind() == reflect.Struct && t.NumField() == 2 && t.Field(0).Name == "Key" && t.Field(1).Name == "Value"
	}
	var ptrContainers []int
	for k := range d.Fields {
		f := sv.Field(k)
		if f.Kind() == reflect.Ptr || (f.Kind() != reflect.Slice && f.Kind() != reflect.Map) || f.Len() == 0 {
			continue
		}
		et := f.Type().Elem()
		if f.Kind() == reflect.Slice && f.Type().Elem().Kind() == reflect.Uint8 {
			continue // binary
		}
		if nilable(et) || (isPair(et) && (nilable(et.Field(0).Type) || nilable(et.Field(1).Type))) {
			ptrContainers = append(ptrContainers, k)
		}
	}
	if len(ptrContainers) > 0 && (len(cands) == 0 || r.Bool()) {
		k := ptrContainers[r.Intn(len(ptrContainers))]
		f := sv.Field(k)
		what := "nil element"
		if f.Kind() == reflect.Slice {
			el := f.Index(r.Intn(f.Len()))
			if isPair(el.Type()) {
				side := 1
				if !nilable(el.Field(1).Type()) || (nilable(el.Field(0).Type()) && r.Bool()) {
					side = 0
				}
				el.Field(side).Set(reflect.Zero(el.Field(side).Type()))
				what = []string{"nil key", "nil value"}[side] + " in a map with unhashable keys"
			} else {
				el.Set(reflect.Zero(el.Type()))
			}
		} else {
			key := f.MapKeys()[r.Intn(f.Len())]
			f.SetMapIndex(key, reflect.Zero(f.Type().Elem()))
			what = "nil map value"
		}
		return what + " inside container field " + d.Fields[k].Name, true
	}
	if len(cands) > 0 {
		k := cands[r.Intn(len(cands))]
		sv.Field(k).Set(reflect.Zero(sv.Field(k).Type()))
		return "required field " + d.Fields[k].Name + " unset", true
	}
	return "", false
}

func nonZero(t reflect.Type) reflect.Value {
	switch t.Kind() {
	case reflect.Ptr:
		return reflect.New(t.Elem())
	case reflect.Slice:
		return reflect.MakeSlice(t, 0, 0)
	case reflect.Map:
		return reflect.MakeMap(t)
	}
	return reflect.Value{}
}

// accessors: GetX returns the field's value, or its declared default, or the
// zero value; IsSetX reports presence.
func accessors(c *core.Child, i uint64, e *TypeEntry, rv reflect.Value, v *idlm.LVal, bad func(string, map[string]any)) {
	d := e.Def.(*idlm.Struct)
	st := rv.Elem().Type()
	for k, fl := range d.Fields {
		goName := st.Field(k).Name
		m := rv.MethodByName("Get" + goName)
		if !m.IsValid() {
			continue
		}
		c.Count("accessor_calls", 1)
		out := m.Call(nil)
		got, err := bridgeExtract(out[0], fl.Type)
		if err != nil {
			continue
		}
		fv, set := v.Fields[fl.Name]
		var want *idlm.LVal
		switch {
		case set:
			want = fv // the accessor returns what is stored; nested defaults belong to the nested value's own accessors
		case fl.Default != nil && d.Kind != idlm.KUnion:
			want = idlm.FillDefaults(idlm.Eval(fl.Default, fl.Type))
		}
		if want != nil {
			if got == nil || idlm.LKeyBits(got) != idlm.LKeyBits(want) {
				bad(fmt.Sprintf("Get%s() returns %s, the field's value/default is %s", goName, idlm.LKeyBits(got), idlm.LKeyBits(want)), nil)
			}
		} else if got != nil && !isZeroL(got) {
			bad(fmt.Sprintf("Get%s() of an unset field without default returns %s, not the zero value", goName, idlm.LKeyBits(got)), nil)
		}
		if is := rv.MethodByName("IsSet" + goName); is.IsValid() {
			o := is.Call(nil)
			if o[0].Kind() == reflect.Bool && o[0].Bool() != set {
				// required non-pointer fields have no IsSet; for the rest presence must agree
				bad(fmt.Sprintf("IsSet%s() = %v but the field is set = %v", goName, o[0].Bool(), set), nil)
			}
		}
	}
}

func isZeroL(v *idlm.LVal) bool {
	switch v.K {
	case idlm.LBool:
		return !v.B
	case idlm.LInt, idlm.LEnum:
		return v.I == 0
	case idlm.LDouble:
		return v.F == 0
	case idlm.LString:
		return v.S == ""
	case idlm.LList, idlm.LSet, idlm.LMap:
		return len(v.Items) == 0
	}
	return false
}

// c01Consts: constants and default constructors yield the IDL literals after
// casting to the declared type.
func c01Consts(c *core.Child, reg *Registry) {
	n := len(reg.Consts) + len(reg.Defaults)
	if n == 0 {
		return
	}
	c.Loop(func(i uint64, r *core.Rand) {
		k := int(i) % n
		c.Count("cases", 1)
		if k < len(reg.Consts) {
			e := &reg.Consts[k]
			d := e.Def.(*idlm.Constant)
			want := idlm.FillDefaults(idlm.Eval(d.Value, d.Type))
			got, err := bridgeExtract(reflect.ValueOf(e.Get()), d.Type)
			c.Count("constants", 1)
			if err != nil {
				c.Count("inconclusive_shape", 1)
				return
			}
			c.Nontrivial(core.HashBytes([]byte(fmt.Sprint(e.Prog, e.File, e.Name)), []byte(idlm.LKeyBits(want))))
			if got == nil || idlm.LKeyBits(got) != idlm.LKeyBits(want) {
				c.Violation(i, fmt.Sprintf("generated constant %s (p%d %s) is %s, the IDL literal denotes %s", e.Name, e.Prog, e.File, idlm.LKeyBits(got), idlm.LKeyBits(want)), "", map[string]any{"files": filesOf(reg, e.Prog)})
			}
			return
		}
		e := &reg.Defaults[k-len(reg.Consts)]
		s := e.Def.(*idlm.Struct)
		var f *idlm.File
		for _, pf := range reg.progs[e.Prog].P.Files {
			if pf.Path == e.File {
				f = pf
			}
		}
		t := idlm.TypeOf(f, s)
		want := idlm.FillDefaults(&idlm.LVal{K: idlm.LStruct, Type: t, Fields: map[string]*idlm.LVal{}})
		got, err := bridgeExtract(reflect.ValueOf(e.Get()), t)
		c.Count("default_constructors", 1)
		if err != nil {
			c.Count("inconclusive_shape", 1)
			return
		}
		c.Nontrivial(core.HashBytes([]byte(fmt.Sprint("D", e.Prog, e.File, e.Name))))
		if got != nil {
			// required scalar fields are plain Go values: they always "exist" (zero)
			// in a freshly constructed struct and say nothing about defaults
			for _, fl := range s.Fields {
				if fl.Req == idlm.ReqRequired && fl.Default == nil {
					delete(got.Fields, fl.Name)
				}
			}
		}
		if got == nil || idlm.LKeyBits(got) != idlm.LKeyBits(want) {
			c.Violation(i, fmt.Sprintf("Default_%s() (p%d %s) is %s, the declared defaults are %s", e.Name, e.Prog, e.File, idlm.LKeyBits(got), idlm.LKeyBits(want)), "", map[string]any{"files": filesOf(reg, e.Prog)})
		}
	})
}

func filesOf(reg *Registry, prog uint64) map[string]string {
	m := map[string]string{}
	if p := reg.progs[prog]; p != nil {
		for _, f := range p.P.Files {
			m[f.Path] = f.Text
		}
	}
	return m
}
