package drv

import (
	"fmt"
	"reflect"

	"verif/harness/core"
	"verif/harness/idlm"
	rc "verif/harness/refcodec"
	wb "verif/harness/wbridge"
)

func init() {
	monitors["c04"] = c04
	monitors["c05inject"] = c05Inject
}

// foreignField draws a well-formed field that the struct type does not
// declare: an unknown id, or a declared id with another wire type.
func foreignField(r *core.Rand, d *idlm.Struct, used map[int16]bool) rc.Field {
	o := rc.GenOpts{MaxDepth: r.Intn(5), MaxLen: 3, MaxBin: 30, NaN: true, Budget: 60}
	if r.Chance(1, 20) {
		o.MaxBin = 70000
	}
	w := rc.GenAny(r, o)
	for try := 0; try < 50; try++ {
		var id int16
		if len(d.Fields) > 0 && r.Chance(1, 3) {
			fl := d.Fields[r.Intn(len(d.Fields))]
			if idlm.WireType(fl.Type) == w.T {
				continue // would be a genuine occurrence of the declared field
			}
			id = int16(fl.ID)
		} else {
			id = int16(r.Uint64())
			declared := false
			for _, fl := range d.Fields {
				if int16(fl.ID) == id {
					declared = true
				}
			}
			if declared {
				continue
			}
		}
		return rc.Field{ID: id, V: w}
	}
	return rc.Field{ID: -32000, V: rc.Bool(true)}
}

// injectForeign returns the tree with foreign fields inserted into struct
// nodes (at every nesting level the type walk reaches), n = how many inserted.
func injectForeign(w rc.W, t *idlm.TypeRef, r *core.Rand, p int) (rc.W, int) {
	rt := t.Root()
	n := 0
	switch rt.Kind {
	case idlm.TList, idlm.TSet:
		out := w
		out.Items = make([]rc.W, len(w.Items))
		for i, it := range w.Items {
			var k int
			out.Items[i], k = injectForeign(it, rt.Elem, r, p)
			n += k
		}
		return out, n
	case idlm.TMap:
		out := w
		out.Items = make([]rc.W, len(w.Items))
		for i, it := range w.Items {
			et := rt.Elem
			if i%2 == 0 {
				et = rt.Key
			}
			var k int
			out.Items[i], k = injectForeign(it, et, r, p)
			n += k
		}
		return out, n
	case idlm.TNamed:
		d, ok := rt.Target.(*idlm.Struct)
		if !ok || w.T != rc.TStruct {
			return w, 0
		}
		out := rc.W{T: rc.TStruct}
		for _, f := range w.Fields {
			if r.Chance(1, p) {
				out.Fields = append(out.Fields, foreignField(r, d, nil))
				n++
			}
			nf := f
			for _, fl := range d.Fields {
				if int16(fl.ID) == f.ID && idlm.WireType(fl.Type) == f.V.T {
					var k int
					nf.V, k = injectForeign(f.V, fl.Type, r, p)
					n += k
				}
			}
			out.Fields = append(out.Fields, nf)
		}
		if r.Chance(1, p) {
			out.Fields = append(out.Fields, foreignField(r, d, nil))
			n++
		}
		return out, n
	}
	return w, 0
}

// perturbNil walks a Go value and sets random pointers, slices and maps to
// nil: a model-free source of possibly schema-violating Go values.
func perturbNil(rv reflect.Value, r *core.Rand, depth int) int {
	n := 0
	switch rv.Kind() {
	case reflect.Ptr:
		if !rv.IsNil() {
			n += perturbNil(rv.Elem(), r, depth+1)
		}
	case reflect.Struct:
		for i := 0; i < rv.NumField(); i++ {
			f := rv.Field(i)
			switch f.Kind() {
			case reflect.Ptr, reflect.Slice, reflect.Map:
				if !f.IsNil() && f.CanSet() && r.Chance(1, 5) {
					f.Set(reflect.Zero(f.Type()))
					n++
					continue
				}
			}
			n += perturbNil(f, r, depth+1)
		}
	case reflect.Slice:
		for i := 0; i < rv.Len(); i++ {
			e := rv.Index(i)
			if e.Kind() == reflect.Ptr && !e.IsNil() && r.Chance(1, 6) {
				e.Set(reflect.Zero(e.Type()))
				n++
				continue
			}
			n += perturbNil(e, r, depth+1)
		}
	case reflect.Map:
		for _, k := range rv.MapKeys() {
			e := rv.MapIndex(k)
			if e.Kind() == reflect.Ptr && !e.IsNil() {
				if r.Chance(1, 6) {
					rv.SetMapIndex(k, reflect.Zero(e.Type()))
					n++
				} else {
					n += perturbNil(e, r, depth+1)
				}
			}
		}
	}
	return n
}

// retypeContainer returns the tree with the elements (or keys, or values) of
// one randomly chosen container replaced by as many well-formed elements of
// another wire type.
func retypeContainer(w rc.W, r *core.Rand) (rc.W, bool) {
	var sites int
	var count func(w rc.W)
	count = func(w rc.W) {
		switch w.T {
		case rc.TList, rc.TSet, rc.TMap:
			sites++
			for _, it := range w.Items {
				count(it)
			}
		case rc.TStruct:
			for _, f := range w.Fields {
				count(f.V)
			}
		}
	}
	count(w)
	if sites == 0 {
		return w, false
	}
	target, seen := r.Intn(sites), 0
	o := rc.GenOpts{MaxDepth: 1, MaxLen: 2, MaxBin: 6, NaN: true, Budget: 20}
	other := func(t byte) byte {
		for {
			if n := rc.AllTypes[r.Intn(len(rc.AllTypes))]; n != t {
				return n
			}
		}
	}
	var walk func(w rc.W) rc.W
	walk = func(w rc.W) rc.W {
		switch w.T {
		case rc.TList, rc.TSet, rc.TMap:
			mine := seen == target
			seen++
			out := w
			out.Items = make([]rc.W, len(w.Items))
			for i, it := range w.Items {
				out.Items[i] = walk(it)
			}
			if mine {
				if w.T == rc.TMap {
					if r.Bool() {
						out.KT = other(w.KT)
						for i := 0; i+1 < len(out.Items); i += 2 {
							out.Items[i] = rc.Gen(r, out.KT, o)
						}
					} else {
						out.VT = other(w.VT)
						for i := 1; i < len(out.Items); i += 2 {
							out.Items[i] = rc.Gen(r, out.VT, o)
						}
					}
				} else {
					out.VT = other(w.VT)
					for i := range out.Items {
						out.Items[i] = rc.Gen(r, out.VT, o)
					}
				}
			}
			return out
		case rc.TStruct:
			out := rc.W{T: rc.TStruct}
			for _, f := range w.Fields {
				out.Fields = append(out.Fields, rc.Field{ID: f.ID, V: walk(f.V)})
			}
			return out
		}
		return w
	}
	return walk(w), true
}

// c04: the value-based and the streaming path of generated code agree.
func c04(c *core.Child, reg *Registry) {
	if len(reg.Types) == 0 {
		return
	}
	c13open := c.Arg("c13open", "1") == "1"
	c.Loop(func(i uint64, r *core.Rand) {
		e := &reg.Types[int(i)%len(reg.Types)]
		v := idlm.GenValue(r, e.Type, idlm.DefaultVal)
		tree := idlm.Lower(v, e.Type, idlm.LowerOpts{R: r.Fork(), Shuffle: true})
		var b []byte
		kind := ""
		switch r.Intn(7) {
		case 0:
			kind = "valid"
			b = rc.Encode(tree)
		case 6:
			// a well-formed encoding in which one container carries elements of
			// another type than declared (what a reader of another schema version sees)
			kind = "retyped-elements"
			t2, ok := retypeContainer(tree, r)
			if !ok {
				kind = "valid"
			}
			b = rc.Encode(t2)
		case 1:
			kind = "foreign-fields"
			t2, _ := injectForeign(tree, e.Type, r, 3)
			b = rc.Encode(t2)
		case 2:
			kind = "evil"
			b = rc.AppendEvil(nil, tree, r, 1, r.Range(4, 30))
		case 3:
			kind = "truncated"
			b = rc.Encode(tree)
			if len(b) > 0 {
				b = b[:r.Intn(len(b))]
			}
		default:
			kind = "mutated"
			b = rc.MutateBytes(rc.Encode(tree), r)
		}
		c.Count("cases", 1)
		// While the C13 finding on generated container decoders is open, inputs
		// whose declared count/length exceeds the remaining bytes are C13's
		// question (what happens before the inevitable failure), not this one's.
		if c13open && rc.DeclaresMoreThanRemains(b, e.wireType()) {
			c.Count("routed_to_C13", 1)
			return
		}
		c.Count("input_"+kind, 1)
		c.DumpCase(map[string]any{"type": e.id(), "hex": fmt.Sprintf("%x", b)})
		det := func(extra map[string]any) map[string]any {
			d := map[string]any{"type": e.id(), "input_kind": kind, "bytes": hx(b), "files": progFiles(e)}
			for k, x := range extra {
				d[k] = x
			}
			return d
		}
		y1, rv1 := e.newValue()
		w := decodeWire(y1, b, e.wireType())
		if w.pan != "" {
			c.Violation(i, "FromWire(Decode()) panics: "+firstLine(w.pan)+"  ["+e.id()+"]", "panic:fromwire", det(map[string]any{"panic": w.pan}))
			return
		}
		var l1 *idlm.LVal
		if w.err == nil {
			var xerr error
			l1, xerr = e.extract(rv1)
			if xerr != nil {
				c.Count("inconclusive_shape", 1)
				return
			}
		}
		class := r.Intn(wb.NumChunkings)
		for pass := 0; pass < 2; pass++ {
			y2, rv2 := e.newValue()
			s := decodeStream(y2, b, class, r.Uint64())
			c.Count("chunk_"+wb.ChunkNames[class], 1)
			if s.pan != "" {
				c.Violation(i, "Decode(stream) panics: "+firstLine(s.pan)+"  ["+e.id()+"]", "panic:decode", det(map[string]any{"panic": s.pan, "chunking": wb.ChunkNames[class]}))
				return
			}
			switch {
			case w.err == nil && s.err != nil:
				c.Violation(i, fmt.Sprintf("the value-based path accepts an input that the streaming path (%s) rejects: %v  [%s]", wb.ChunkNames[class], s.err, e.id()), "", det(map[string]any{"value_path": idlm.LKeyBits(l1)}))
				return
			case w.err == nil && s.err == nil:
				l2, xerr := e.extract(rv2)
				if xerr == nil && idlm.LKeyBits(l1) != idlm.LKeyBits(l2) {
					c.Violation(i, fmt.Sprintf("value-based and streaming (%s) deserialisers yield different values  [%s]", wb.ChunkNames[class], e.id()), "", det(map[string]any{"value_path": idlm.LKeyBits(l1), "stream_path": idlm.LKeyBits(l2)}))
					return
				}
				c.Count("both_accept", 1)
				c.Nontrivial(core.HashBytes([]byte(e.id()), b))
			case w.err != nil && s.err == nil:
				c.Count("stream_only_accepts", 1)
			default:
				c.Count("both_reject", 1)
			}
			class = (class + 1 + r.Intn(wb.NumChunkings-1)) % wb.NumChunkings
		}
		// serialiser agreement on Go values, valid and perturbed
		x, rv, err := e.inject(v)
		if err != nil {
			return
		}
		if r.Bool() {
			if perturbNil(rv.Elem(), r, 0) > 0 {
				c.Count("go_values_perturbed", 1)
			}
		}
		c.Count("go_values", 1)
		es, ew := encodeStream(x), encodeWire(x)
		if es.pan != "" || ew.pan != "" {
			// a nil element deep inside may legitimately panic? no: both paths must report errors
			c.Violation(i, "a serialiser panics on a Go value: "+firstLine(es.pan+ew.pan)+"  ["+e.id()+"]", "panic:serialise", det(map[string]any{"panic_stream": es.pan, "panic_wire": ew.pan}))
			return
		}
		if (es.err == nil) != (ew.err == nil) {
			c.Violation(i, fmt.Sprintf("one serialiser fails and the other succeeds on the same Go value: Encode(stream) err=%v, ToWire+Encode err=%v  [%s]", es.err, ew.err, e.id()), "", det(nil))
			return
		}
		if es.err == nil {
			p1, e1 := e.projectBytes(es.bytes)
			p2, e2 := e.projectBytes(ew.bytes)
			if e1 == nil && e2 == nil && idlm.LKeyBits(p1) != idlm.LKeyBits(p2) {
				c.Violation(i, "the two serialisers produce encodings of different values  ["+e.id()+"]", "", det(map[string]any{"stream": hx(es.bytes), "wire": hx(ew.bytes)}))
			}
			c.Count("serialisers_both_succeed", 1)
		} else {
			c.Count("serialisers_both_fail", 1)
		}
	})
}

// c05Inject: foreign fields of any type, size, depth and position do not
// change what the remaining fields decode to.
func c05Inject(c *core.Child, reg *Registry) {
	var structs []*TypeEntry
	for i := range reg.Types {
		if reg.Types[i].Kind == "struct" {
			structs = append(structs, &reg.Types[i])
		}
	}
	if len(structs) == 0 {
		return
	}
	c.Loop(func(i uint64, r *core.Rand) {
		e := structs[int(i)%len(structs)]
		v := idlm.GenValue(r, e.Type, idlm.DefaultVal)
		want := idlm.FillDefaults(v)
		tree := idlm.Lower(v, e.Type, idlm.LowerOpts{R: r.Fork(), Shuffle: true})
		t2, n := injectForeign(tree, e.Type, r, 2)
		b := rc.Encode(t2)
		c.Count("cases", 1)
		c.Count("foreign_fields_injected", int64(n))
		c.DumpCase(map[string]any{"type": e.id(), "hex": fmt.Sprintf("%x", b)})
		if n > 0 {
			c.Nontrivial(core.HashBytes([]byte(e.id()), b))
		}
		det := func(extra map[string]any) map[string]any {
			d := map[string]any{"type": e.id(), "value": idlm.LKeyBits(v), "expected": idlm.LKeyBits(want), "injected": n, "bytes": hx(b), "files": progFiles(e)}
			for k, x := range extra {
				d[k] = x
			}
			return d
		}
		class := r.Intn(wb.NumChunkings)
		for _, path := range []string{"Decode(stream.Reader)", "FromWire(binary.Decode())"} {
			y, yrv := e.newValue()
			var res callResult
			if path[0] == 'D' {
				res = decodeStream(y, b, class, r.Uint64())
			} else {
				res = decodeWire(y, b, e.wireType())
			}
			switch {
			case res.pan != "":
				c.Violation(i, path+" panics on an encoding with foreign fields: "+firstLine(res.pan)+"  ["+e.id()+"]", "panic", det(map[string]any{"panic": res.pan}))
			case res.err != nil:
				c.Violation(i, fmt.Sprintf("%s fails although every required field is present with its declared type: %v  [%s]", path, res.err, e.id()), "", det(nil))
			default:
				got, xerr := e.extract(yrv)
				if xerr == nil && idlm.LKeyBits(got) != idlm.LKeyBits(want) {
					c.Violation(i, path+": foreign fields changed how the remaining fields decode  ["+e.id()+"]", "", det(map[string]any{"got": idlm.LKeyBits(got)}))
				}
			}
		}
	})
}
