package drv

import (
	"encoding/json"
	"fmt"
	"math"
	"reflect"
	"sort"
	"strings"

	"go.uber.org/thriftrw/wire"
	"go.uber.org/zap/zapcore"
	"verif/harness/core"
	"verif/harness/idlm"
	rc "verif/harness/refcodec"
	wb "verif/harness/wbridge"
)

func init() {
	monitors["c14"] = c14
	monitors["c15"] = c15
}

// decodeTo decodes reference bytes into a fresh generated value through one
// of the two paths.
func (e *TypeEntry) decodeTo(b []byte, stream bool, r *core.Rand) (thriftValue, reflect.Value, error) {
	y, rv := e.newValue()
	var res callResult
	if stream {
		res = decodeStream(y, b, r.Intn(wb.NumChunkings), r.Uint64())
	} else {
		res = decodeWire(y, b, e.wireType())
	}
	if res.pan != "" {
		return nil, rv, fmt.Errorf("panic: %s", firstLine(res.pan))
	}
	return y, rv, res.err
}

// perturb returns a copy of v with one leaf, presence, length or order change
// (and a description), or nil if the value offers no change.
func perturb(v *idlm.LVal, r *core.Rand) (*idlm.LVal, string) {
	out := *v
	switch v.K {
	case idlm.LBool:
		out.B = !v.B
		return &out, "bool flipped"
	case idlm.LInt:
		out.I = v.I ^ 1
		return &out, "integer changed"
	case idlm.LEnum:
		out.I = v.I + 1
		if out.I > 2147483647 {
			out.I = 0
		}
		out.Item = nil
		return &out, "enum changed"
	case idlm.LDouble:
		if v.F == 0 {
			out.F = math.Copysign(0, -1)
			if math.Signbit(v.F) {
				out.F = 0
			}
			return &out, "zero sign flipped (still the same number)"
		}
		out.F = v.F + 1
		if out.F == v.F {
			out.F = 0.5
		}
		return &out, "double changed"
	case idlm.LString:
		out.S = v.S + "x"
		return &out, "string extended"
	case idlm.LList:
		if len(v.Items) >= 2 && r.Bool() {
			out.Items = append([]*idlm.LVal{}, v.Items...)
			a, b := 0, len(v.Items)-1
			if idlm.LKey(out.Items[a]) == idlm.LKey(out.Items[b]) {
				return nil, ""
			}
			out.Items[a], out.Items[b] = out.Items[b], out.Items[a]
			return &out, "list order changed"
		}
		if len(v.Items) > 0 {
			k := r.Intn(len(v.Items))
			if p, what := perturb(v.Items[k], r); p != nil {
				out.Items = append([]*idlm.LVal{}, v.Items...)
				out.Items[k] = p
				return &out, "list element: " + what
			}
			out.Items = v.Items[:len(v.Items)-1]
			return &out, "list shortened"
		}
		return nil, ""
	case idlm.LSet:
		if len(v.Items) > 0 {
			out.Items = append([]*idlm.LVal{}, v.Items[:len(v.Items)-1]...)
			return &out, "set element removed"
		}
		return nil, ""
	case idlm.LMap:
		if len(v.Items) >= 2 {
			if r.Bool() {
				if p, what := perturb(v.Items[1], r); p != nil {
					out.Items = append([]*idlm.LVal{}, v.Items...)
					out.Items[1] = p
					return &out, "map value: " + what
				}
			}
			out.Items = append([]*idlm.LVal{}, v.Items[2:]...)
			return &out, "map entry removed"
		}
		return nil, ""
	case idlm.LStruct:
		d := v.Type.Root().Target.(*idlm.Struct)
		out.Fields = map[string]*idlm.LVal{}
		for k, x := range v.Fields {
			out.Fields[k] = x
		}
		order := r.Perm(len(d.Fields))
		for _, k := range order {
			fl := d.Fields[k]
			fv, set := v.Fields[fl.Name]
			if d.Kind == idlm.KUnion {
				if set {
					if p, what := perturb(fv, r); p != nil {
						out.Fields[fl.Name] = p
						return &out, "union member " + fl.Name + ": " + what
					}
				}
				continue
			}
			if set && r.Chance(2, 3) {
				if p, what := perturb(fv, r); p != nil {
					out.Fields[fl.Name] = p
					return &out, "field " + fl.Name + ": " + what
				}
			}
			if set && fl.Req != idlm.ReqRequired && fl.Default == nil {
				delete(out.Fields, fl.Name)
				return &out, "optional field " + fl.Name + " unset"
			}
		}
		return nil, ""
	}
	return nil, ""
}

func callEquals(a, b reflect.Value) (res bool, pan string) {
	defer func() {
		if p := recover(); p != nil {
			pan = fmt.Sprint(p)
		}
	}()
	m := a.MethodByName("Equals")
	if !m.IsValid() {
		return false, "no Equals method"
	}
	out := m.Call([]reflect.Value{b})
	return out[0].Bool(), ""
}

func wireEqual(a, b thriftValue) (res bool, err string) {
	defer func() {
		if p := recover(); p != nil {
			err = fmt.Sprint("panic: ", p)
		}
	}()
	wa, e1 := a.ToWire()
	wb2, e2 := b.ToWire()
	if e1 != nil || e2 != nil {
		return false, fmt.Sprint(e1, e2)
	}
	return wire.ValuesAreEqual(wa, wb2), ""
}

// c14: Equals is an equivalence that coincides with wire equality and with an
// independent structural comparison of the logical values.
func c14(c *core.Child, reg *Registry) {
	var structs []*TypeEntry
	for i := range reg.Types {
		if reg.Types[i].Kind == "struct" {
			structs = append(structs, &reg.Types[i])
		}
	}
	if len(structs) == 0 {
		return
	}
	o := idlm.DefaultVal
	o.NaN = false
	c.Loop(func(i uint64, r *core.Rand) {
		e := structs[int(i)%len(structs)]
		v := idlm.GenValue(r, e.Type, o)
		z, what := perturb(v, r)
		c.Count("cases", 1)
		c.DumpCase(map[string]any{"type": e.id(), "value": idlm.LKeyBits(v)})
		bx := rc.Encode(idlm.Lower(v, e.Type, idlm.LowerOpts{}))
		by := rc.Encode(idlm.Lower(v, e.Type, idlm.LowerOpts{R: r.Fork(), Shuffle: true}))
		x, xrv, err1 := e.decodeTo(bx, r.Bool(), r)
		y, yrv, err2 := e.decodeTo(by, r.Bool(), r)
		if err1 != nil || err2 != nil {
			c.Count("decode_failed", 1) // C01's business
			return
		}
		det := func(extra map[string]any) map[string]any {
			d := map[string]any{"type": e.id(), "x": idlm.LKey(v), "perturbation": what, "files": progFiles(e)}
			if z != nil {
				d["z"] = idlm.LKey(z)
			}
			for k, a := range extra {
				d[k] = a
			}
			return d
		}
		bad := func(w string, extra map[string]any) { c.Violation(i, w+"  ["+e.id()+"]", "", det(extra)) }
		c.Nontrivial(core.HashBytes([]byte(e.id()), bx))
		// reflexive, and insensitive to set/map/field order
		for _, pair := range []struct {
			n    string
			a, b reflect.Value
		}{{"x.Equals(x)", xrv, xrv}, {"x.Equals(y) (y = permuted re-encoding of x)", xrv, yrv}, {"y.Equals(x)", yrv, xrv}} {
			eq, pan := callEquals(pair.a, pair.b)
			if pan != "" {
				bad(pair.n+" panics: "+pan, nil)
				return
			}
			if !eq {
				bad(pair.n+" is false", nil)
				return
			}
		}
		if eq, werr := wireEqual(x, y); werr != "" || !eq {
			bad("wire.ValuesAreEqual(x.ToWire(), y.ToWire()) is false for equal values "+werr, nil)
		}
		// the same two wire values compared repeatedly and in both directions:
		// a comparison must not change its arguments
		if wx, e1 := x.ToWire(); e1 == nil {
			if wy, e2 := y.ToWire(); e2 == nil {
				r1 := wire.ValuesAreEqual(wx, wy)
				r2 := wire.ValuesAreEqual(wx, wy)
				r3 := wire.ValuesAreEqual(wy, wx)
				r4 := wire.ValuesAreEqual(wy, wy)
				r5 := wire.ValuesAreEqual(wx, wx)
				if !(r1 && r2 && r3 && r4 && r5) {
					bad(fmt.Sprintf("wire equality of the same two (equal) wire values is not stable: first=%v again=%v swapped=%v y=y %v x=x %v", r1, r2, r3, r4, r5), nil)
				}
				c.Count("wire_reuse_checks", 1)
			}
		}
		// nil receiver / argument
		nilv := reflect.Zero(xrv.Type())
		for _, pair := range []struct {
			n    string
			a, b reflect.Value
			want bool
		}{{"x.Equals(nil)", xrv, nilv, false}, {"nil.Equals(x)", nilv, xrv, false}, {"nil.Equals(nil)", nilv, nilv, true}} {
			eq, pan := callEquals(pair.a, pair.b)
			if pan != "" {
				bad(pair.n+" panics: "+pan, nil)
				return
			}
			if eq != pair.want {
				bad(fmt.Sprintf("%s = %v", pair.n, eq), nil)
			}
		}
		c.Count("nil_checks", 1)
		if z == nil {
			return
		}
		bz := rc.Encode(idlm.Lower(z, e.Type, idlm.LowerOpts{R: r.Fork(), Shuffle: true}))
		zt, zrv, err3 := e.decodeTo(bz, r.Bool(), r)
		if err3 != nil {
			return
		}
		c.Count("perturbed_pairs", 1)
		c.Count("perturbation_"+strings.Fields(what)[0], 1)
		// independent structural comparison of what the reader reports
		want := idlm.LKey(idlm.FillDefaults(v)) == idlm.LKey(idlm.FillDefaults(z))
		xz, p1 := callEquals(xrv, zrv)
		zx, p2 := callEquals(zrv, xrv)
		yz, p3 := callEquals(yrv, zrv)
		if p1+p2+p3 != "" {
			bad("Equals panics: "+p1+p2+p3, nil)
			return
		}
		if xz != zx {
			bad(fmt.Sprintf("Equals is not symmetric: x.Equals(z)=%v, z.Equals(x)=%v", xz, zx), nil)
		}
		if xz != yz {
			bad(fmt.Sprintf("Equals is not transitive: x=y, but x.Equals(z)=%v and y.Equals(z)=%v", xz, yz), nil)
		}
		if xz != want {
			bad(fmt.Sprintf("x.Equals(z)=%v but the logical values are equal=%v (%s)", xz, want, what), nil)
		}
		we, werr := wireEqual(x, zt)
		if werr != "" {
			bad("wire equality failed: "+werr, nil)
		} else if we != xz {
			bad(fmt.Sprintf("x.Equals(z)=%v but wire.ValuesAreEqual(x.ToWire(), z.ToWire())=%v (%s)", xz, we, what), nil)
		}
		if i%211 == 0 {
			c.Sample(map[string]any{"type": e.id(), "x": idlm.LKey(v), "perturbation": what, "equal": xz})
		}
	})
}

// ---- C15 -------------------------------------------------------------------------------

func hasAnn(as []idlm.Ann, name string) bool {
	for _, a := range as {
		if a.Name == name {
			return true
		}
	}
	return false
}

// revalue returns a copy of v in which the value of every SET field annotated
// with one of the given annotations (at any depth) is replaced by a fresh
// value; n counts replacements.
func revalue(v *idlm.LVal, r *core.Rand, o idlm.ValOpts, anns []string, n *int) *idlm.LVal {
	if v == nil {
		return nil
	}
	out := *v
	switch v.K {
	case idlm.LList, idlm.LSet, idlm.LMap:
		out.Items = make([]*idlm.LVal, len(v.Items))
		for k, it := range v.Items {
			// keys of maps and elements of sets stay as they are (changing them
			// could change the container's shape)
			if v.K == idlm.LSet || (v.K == idlm.LMap && k%2 == 0) {
				out.Items[k] = it
			} else {
				out.Items[k] = revalue(it, r, o, anns, n)
			}
		}
	case idlm.LStruct:
		d := v.Type.Root().Target.(*idlm.Struct)
		out.Fields = map[string]*idlm.LVal{}
		for _, fl := range d.Fields {
			fv, ok := v.Fields[fl.Name]
			if !ok {
				continue
			}
			hit := false
			for _, a := range anns {
				if hasAnn(fl.Ann, a) {
					hit = true
				}
			}
			if hit {
				nv := idlm.GenValue(r, fl.Type, o)
				out.Fields[fl.Name] = nv
				*n++
			} else {
				out.Fields[fl.Name] = revalue(fv, r, o, anns, n)
			}
		}
	}
	return &out
}

// markersOf collects the markers of string-typed struct fields reachable
// without passing through a set element or map key, with the annotations on
// the path (redacted / nolog anywhere above them).
type markerUse struct {
	marker   string
	label    string
	redacted bool
	nolog    bool
}

func markersOf(v *idlm.LVal, redacted, nolog bool, out *[]markerUse) {
	if v == nil {
		return
	}
	switch v.K {
	case idlm.LList:
		for _, it := range v.Items {
			markersOf(it, redacted, nolog, out)
		}
	case idlm.LMap:
		for k := 1; k < len(v.Items); k += 2 {
			markersOf(v.Items[k], redacted, nolog, out)
		}
	case idlm.LStruct:
		d := v.Type.Root().Target.(*idlm.Struct)
		for _, fl := range d.Fields {
			fv, ok := v.Fields[fl.Name]
			if !ok {
				continue
			}
			red := redacted || hasAnn(fl.Ann, "go.redact")
			nl := nolog || hasAnn(fl.Ann, "go.nolog")
			if fv.K == idlm.LString && fl.Type.Root().Kind == idlm.TBase && fl.Type.Root().Base == idlm.BString {
				label := fl.Name
				if l, ok := annOf(fl.Ann, "go.label"); ok {
					label = l
				}
				*out = append(*out, markerUse{fv.S, label, red, nl})
			} else {
				markersOf(fv, red, nl, out)
			}
		}
	}
}

func annOf(as []idlm.Ann, name string) (string, bool) {
	for _, a := range as {
		if a.Name == name {
			return a.Value, true
		}
	}
	return "", false
}

func callString(rv reflect.Value, method string) (s string, ok bool, pan string) {
	defer func() {
		if p := recover(); p != nil {
			pan = fmt.Sprint(p)
		}
	}()
	m := rv.MethodByName(method)
	if !m.IsValid() {
		return "", false, ""
	}
	return m.Call(nil)[0].String(), true, ""
}

// zapJSON renders a value through a real zapcore encoder and returns a
// canonical JSON text (object keys sorted, arrays as emitted).
func zapJSON(x any) (s string, ok bool, pan string) {
	defer func() {
		if p := recover(); p != nil {
			pan = fmt.Sprint(p)
		}
	}()
	om, isOM := x.(zapcore.ObjectMarshaler)
	if !isOM {
		return "", false, ""
	}
	enc := zapcore.NewMapObjectEncoder()
	if err := om.MarshalLogObject(enc); err != nil {
		return "error: " + err.Error(), true, ""
	}
	b, err := json.Marshal(canon(enc.Fields))
	if err != nil {
		return fmt.Sprintf("%v", enc.Fields), true, ""
	}
	return string(b), true, ""
}

// canon sorts arrays that stem from sets/maps? No: it leaves arrays alone
// (their order is the container's iteration order) except that it renders
// them as sorted multisets, since set and map order is not significant.
func canon(v any) any {
	switch t := v.(type) {
	case map[string]any:
		out := map[string]any{}
		for k, x := range t {
			out[k] = canon(x)
		}
		return out
	case []any:
		items := make([]string, len(t))
		for i, x := range t {
			b, _ := json.Marshal(canon(x))
			items[i] = string(b)
		}
		sort.Strings(items)
		out := make([]any, len(items))
		for i, s := range items {
			out[i] = json.RawMessage(s)
		}
		return out
	case float64:
		if t != t || t > 1.7976931348623157e308 || t < -1.7976931348623157e308 {
			return fmt.Sprint(t) // NaN and infinities have no JSON number form
		}
		return t
	case float32:
		return canon(float64(t))
	case []byte:
		return fmt.Sprintf("bytes:%x", t)
	}
	return v
}

// c15: redacted / no-log fields never leak.
func c15(c *core.Child, reg *Registry) {
	var structs []*TypeEntry
	for i := range reg.Types {
		if reg.Types[i].Kind == "struct" {
			structs = append(structs, &reg.Types[i])
		}
	}
	if len(structs) == 0 {
		return
	}
	c.Loop(func(i uint64, r *core.Rand) {
		e := structs[int(i)%len(structs)]
		mk := 0
		o := idlm.ValOpts{MaxDepth: 3, MaxLen: 2, NaN: false, Marker: func() string {
			mk++
			return fmt.Sprintf("MK%dq%dq%dZ", i, mk, r.Intn(100000))
		}}
		v := idlm.GenValue(r, e.Type, o)
		c.Count("cases", 1)
		n := 0
		v2 := revalue(v, r, o, []string{"go.redact"}, &n)
		n3 := 0
		v3 := revalue(v, r, o, []string{"go.redact", "go.nolog"}, &n3)
		_, rv1, err1 := e.inject(v)
		_, rv2, err2 := e.inject(v2)
		_, rv3, err3 := e.inject(v3)
		if err1 != nil || err2 != nil || err3 != nil {
			c.Count("inconclusive_shape", 1)
			return
		}
		det := func(extra map[string]any) map[string]any {
			d := map[string]any{"type": e.id(), "value": idlm.LKey(v), "files": progFiles(e)}
			for k, a := range extra {
				d[k] = a
			}
			return d
		}
		bad := func(w string, extra map[string]any) { c.Violation(i, w+"  ["+e.id()+"]", "", det(extra)) }
		var uses []markerUse
		markersOf(v, false, false, &uses)
		for _, method := range []string{"String", "Error"} {
			s1, ok, pan := callString(rv1, method)
			if pan != "" {
				bad(method+"() panics: "+pan, nil)
				return
			}
			if !ok {
				continue
			}
			c.Count("calls_"+method, 1)
			if n > 0 {
				s2, _, _ := callString(rv2, method)
				c.Count("noninterference_"+method, 1)
				c.Nontrivial(core.HashBytes([]byte(e.id()), []byte(s1)))
				if s1 != s2 {
					bad(method+"() output depends on the value of a go.redact field", map[string]any{"with_value_1": s1, "with_value_2": s2, "value_2": idlm.LKey(v2)})
				}
			}
			for _, u := range uses {
				if u.redacted && strings.Contains(s1, u.marker) {
					bad(method+"() contains the value of a go.redact field: "+u.marker, map[string]any{"text": s1})
				}
				if !u.redacted && !strings.Contains(s1, u.marker) {
					bad(method+"() does not show the set field "+u.label+" ("+u.marker+")", map[string]any{"text": s1})
				}
			}
		}
		z1, ok, pan := zapJSON(rv1.Interface())
		if pan != "" {
			bad("MarshalLogObject panics: "+pan, nil)
			return
		}
		if ok {
			c.Count("calls_zap", 1)
			if n3 > 0 {
				z3, _, _ := zapJSON(rv3.Interface())
				c.Count("noninterference_zap", 1)
				c.Nontrivial(core.HashBytes([]byte(e.id()), []byte(z1)))
				if z1 != z3 {
					bad("zap output depends on the value of a go.redact / go.nolog field", map[string]any{"with_value_1": z1, "with_value_3": z3, "value_3": idlm.LKey(v3)})
				}
			}
			for _, u := range uses {
				hidden := u.redacted || u.nolog
				if hidden && strings.Contains(z1, u.marker) {
					bad("zap output contains the value of a go.redact / go.nolog field: "+u.marker, map[string]any{"zap": z1})
				}
				if !hidden {
					if !strings.Contains(z1, u.marker) {
						bad("zap output does not contain the set field "+u.label+" ("+u.marker+")", map[string]any{"zap": z1})
					} else if !strings.Contains(z1, `"`+u.label+`":"`+u.marker+`"`) {
						bad("zap output does not log field "+u.label+" under its label", map[string]any{"zap": z1})
					}
				}
			}
		}
		if i%97 == 0 {
			s1, _, _ := callString(rv1, "String")
			c.Sample(map[string]any{"type": e.id(), "redacted_fields_changed": n, "String": s1, "zap": z1})
		}
	})
}
