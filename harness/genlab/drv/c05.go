package drv

import (
	"fmt"

	"verif/harness/core"
	"verif/harness/idlm"
	rc "verif/harness/refcodec"
	wb "verif/harness/wbridge"
)

func init() { monitors["c05"] = c05 }

// c05: generated code of an evolved schema reads what the original schema wrote.
func c05(c *core.Child, reg *Registry) {
	type pair struct{ w, r *TypeEntry }
	var pairs []pair
	byKey := map[string]*TypeEntry{}
	for i := range reg.Types {
		e := &reg.Types[i]
		if e.Kind == "struct" {
			byKey[fmt.Sprint(e.Prog, "|", e.File, "|", e.Name)] = e
		}
	}
	for i := range reg.Types {
		e := &reg.Types[i]
		if e.Kind != "struct" || e.Prog%2 != 0 {
			continue
		}
		if rd, ok := byKey[fmt.Sprint(e.Prog+1, "|", e.File, "|", e.Name)]; ok {
			pairs = append(pairs, pair{e, rd})
		}
	}
	if len(pairs) == 0 {
		return
	}
	c.Loop(func(i uint64, r *core.Rand) {
		p := pairs[int(i)%len(pairs)]
		v := idlm.GenValue(r, p.w.Type, idlm.DefaultVal)
		tree := idlm.Lower(v, p.w.Type, idlm.LowerOpts{R: r.Fork(), Shuffle: true})
		b := rc.Encode(tree)
		c.Count("cases", 1)
		c.DumpCase(map[string]any{"type": p.w.id(), "hex": fmt.Sprintf("%x", b)})
		want, perr := idlm.ProjectEvolved(tree, p.r.Type)
		undetermined := false
		if pe, ok := perr.(*idlm.ErrProject); ok && pe.Undetermined {
			undetermined = true
			c.Count("undetermined_outcome", 1)
		} else if perr == nil {
			want = idlm.FillDefaults(want)
			c.Count("expected_accept", 1)
			if idlm.HasAmbig(want) {
				c.Count("with_retyped_container_elements", 1)
			}
		} else {
			c.Count("expected_reject", 1)
		}
		c.Nontrivial(core.HashBytes([]byte(p.r.id()), b))
		files := func() map[string]any {
			return map[string]any{"writer_schema": progFiles(p.w), "reader_schema": progFiles(p.r)}
		}
		det := func(extra map[string]any) map[string]any {
			d := map[string]any{"type": p.r.id(), "written_value": idlm.LKeyBits(v), "bytes": hx(b), "schemas": files()}
			if perr != nil {
				d["reader_must_fail_because"] = perr.Error()
			} else {
				d["expected"] = idlm.LKeyBits(want)
			}
			for k, x := range extra {
				d[k] = x
			}
			return d
		}
		class := r.Intn(wb.NumChunkings)
		for _, path := range []string{"Decode(stream.Reader)", "FromWire(binary.Decode())"} {
			y, yrv := p.r.newValue()
			var res callResult
			if path[0] == 'D' {
				res = decodeStream(y, b, class, r.Uint64())
			} else {
				res = decodeWire(y, b, p.r.wireType())
			}
			switch {
			case res.pan != "":
				c.Violation(i, path+" of the evolved schema panics: "+firstLine(res.pan)+"  ["+p.r.id()+"]", "panic", det(map[string]any{"panic": res.pan}))
			case undetermined:
			case perr != nil && res.err == nil:
				c.Violation(i, fmt.Sprintf("%s accepts input on which decoding must fail (%v)  [%s]", path, perr, p.r.id()), "", det(nil))
			case perr == nil && res.err != nil:
				c.Violation(i, fmt.Sprintf("%s fails (%v) although every required field is present with its declared type  [%s]", path, res.err, p.r.id()), "", det(nil))
			case perr == nil:
				got, xerr := p.r.extract(yrv)
				if xerr != nil {
					c.Count("inconclusive_shape", 1)
				} else if !idlm.Matches(want, got) {
					c.Violation(i, path+" of the evolved schema yields a different value  ["+p.r.id()+"]", "", det(map[string]any{"got": idlm.LKeyBits(got)}))
				}
			}
		}
		if i%301 == 0 {
			c.Sample(map[string]any{"reader_type": p.r.id(), "written_value": idlm.LKeyBits(v), "bytes": hx(b), "reader_must_fail": perr != nil})
		}
	})
}
