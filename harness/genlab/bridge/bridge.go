// Package bridge converts between the model's logical values and values of
// generated Go types by reflection. It does not predict the Go type from the
// schema: it adapts to the Go shape it finds (pointer or value, map or slice
// for sets, map or key/value-struct slice for maps), guided only by the schema
// kind. It calls no generated method.
package bridge

import (
	"fmt"
	"math"
	"reflect"

	"verif/harness/idlm"
)

// ErrShape: a Go shape the bridge does not understand (the case is then
// inconclusive, never a violation).
type ErrShape struct{ Why string }

func (e *ErrShape) Error() string { return "bridge: " + e.Why }

func shape(f string, a ...any) error { return &ErrShape{fmt.Sprintf(f, a...)} }

// Inject builds a Go value of type rt from v.
func Inject(v *idlm.LVal, t *idlm.TypeRef, rt reflect.Type) (reflect.Value, error) {
	if rt.Kind() == reflect.Ptr {
		// pointer to struct, or optional primitive
		e, err := Inject(v, t, rt.Elem())
		if err != nil {
			return reflect.Value{}, err
		}
		p := reflect.New(rt.Elem())
		p.Elem().Set(e)
		return p, nil
	}
	out := reflect.New(rt).Elem()
	root := t.Root()
	switch v.K {
	case idlm.LBool:
		if rt.Kind() != reflect.Bool {
			return out, shape("bool into %v", rt)
		}
		out.SetBool(v.B)
	case idlm.LInt, idlm.LEnum:
		switch rt.Kind() {
		case reflect.Int8, reflect.Int16, reflect.Int32, reflect.Int64:
			out.SetInt(v.I)
		default:
			return out, shape("integer into %v", rt)
		}
	case idlm.LDouble:
		if rt.Kind() != reflect.Float64 {
			return out, shape("double into %v", rt)
		}
		out.SetFloat(v.F)
	case idlm.LString:
		switch {
		case rt.Kind() == reflect.String:
			out.SetString(v.S)
		case rt.Kind() == reflect.Slice && rt.Elem().Kind() == reflect.Uint8:
			out.SetBytes([]byte(v.S))
		default:
			return out, shape("string/binary into %v", rt)
		}
	case idlm.LList:
		if rt.Kind() != reflect.Slice {
			return out, shape("list into %v", rt)
		}
		s := reflect.MakeSlice(rt, 0, len(v.Items))
		for _, it := range v.Items {
			e, err := Inject(it, root.Elem, rt.Elem())
			if err != nil {
				return out, err
			}
			s = reflect.Append(s, e)
		}
		out.Set(s)
	case idlm.LSet:
		switch rt.Kind() {
		case reflect.Map:
			m := reflect.MakeMapWithSize(rt, len(v.Items))
			for _, it := range v.Items {
				e, err := Inject(it, root.Elem, rt.Key())
				if err != nil {
					return out, err
				}
				m.SetMapIndex(e, reflect.New(rt.Elem()).Elem())
			}
			out.Set(m)
		case reflect.Slice:
			s := reflect.MakeSlice(rt, 0, len(v.Items))
			for _, it := range v.Items {
				e, err := Inject(it, root.Elem, rt.Elem())
				if err != nil {
					return out, err
				}
				s = reflect.Append(s, e)
			}
			out.Set(s)
		default:
			return out, shape("set into %v", rt)
		}
	case idlm.LMap:
		switch rt.Kind() {
		case reflect.Map:
			m := reflect.MakeMapWithSize(rt, len(v.Items)/2)
			for i := 0; i+1 < len(v.Items); i += 2 {
				k, err := Inject(v.Items[i], root.Key, rt.Key())
				if err != nil {
					return out, err
				}
				x, err := Inject(v.Items[i+1], root.Elem, rt.Elem())
				if err != nil {
					return out, err
				}
				m.SetMapIndex(k, x)
			}
			out.Set(m)
		case reflect.Slice:
			et := rt.Elem()
			if et.Kind() != reflect.Struct || et.NumField() != 2 {
				return out, shape("map into %v", rt)
			}
			s := reflect.MakeSlice(rt, 0, len(v.Items)/2)
			for i := 0; i+1 < len(v.Items); i += 2 {
				k, err := Inject(v.Items[i], root.Key, et.Field(0).Type)
				if err != nil {
					return out, err
				}
				x, err := Inject(v.Items[i+1], root.Elem, et.Field(1).Type)
				if err != nil {
					return out, err
				}
				e := reflect.New(et).Elem()
				e.Field(0).Set(k)
				e.Field(1).Set(x)
				s = reflect.Append(s, e)
			}
			out.Set(s)
		default:
			return out, shape("map into %v", rt)
		}
	case idlm.LStruct:
		if rt.Kind() != reflect.Struct {
			return out, shape("struct into %v", rt)
		}
		d := root.Target.(*idlm.Struct)
		if rt.NumField() != len(d.Fields) {
			return out, shape("struct %s has %d fields, Go type %v has %d", d.Name, len(d.Fields), rt, rt.NumField())
		}
		for i, fl := range d.Fields {
			fv, ok := v.Fields[fl.Name]
			if !ok {
				continue
			}
			e, err := Inject(fv, fl.Type, rt.Field(i).Type)
			if err != nil {
				return out, err
			}
			out.Field(i).Set(e)
		}
	}
	return out, nil
}

// Extract reads a Go value back as a logical value of type t. Nil pointers,
// nil slices and nil maps in struct fields read as "unset".
func Extract(rv reflect.Value, t *idlm.TypeRef) (*idlm.LVal, error) {
	root := t.Root()
	if rv.Kind() == reflect.Ptr {
		if rv.IsNil() {
			return nil, nil
		}
		return Extract(rv.Elem(), t)
	}
	switch root.Kind {
	case idlm.TBase:
		switch root.Base {
		case idlm.BBool:
			if rv.Kind() != reflect.Bool {
				return nil, shape("bool from %v", rv.Type())
			}
			return &idlm.LVal{K: idlm.LBool, B: rv.Bool(), Type: root}, nil
		case idlm.BI8, idlm.BI16, idlm.BI32, idlm.BI64:
			if rv.Kind() < reflect.Int8 || rv.Kind() > reflect.Int64 {
				return nil, shape("integer from %v", rv.Type())
			}
			return &idlm.LVal{K: idlm.LInt, I: rv.Int(), Type: root}, nil
		case idlm.BDouble:
			if rv.Kind() != reflect.Float64 {
				return nil, shape("double from %v", rv.Type())
			}
			return &idlm.LVal{K: idlm.LDouble, F: rv.Float(), Type: root}, nil
		default:
			switch {
			case rv.Kind() == reflect.String:
				return &idlm.LVal{K: idlm.LString, S: rv.String(), Type: root}, nil
			case rv.Kind() == reflect.Slice && rv.Type().Elem().Kind() == reflect.Uint8:
				if rv.IsNil() {
					return nil, nil
				}
				return &idlm.LVal{K: idlm.LString, S: string(rv.Bytes()), Type: root}, nil
			}
			return nil, shape("string/binary from %v", rv.Type())
		}
	case idlm.TList:
		if rv.Kind() != reflect.Slice {
			return nil, shape("list from %v", rv.Type())
		}
		if rv.IsNil() {
			return nil, nil
		}
		v := &idlm.LVal{K: idlm.LList, Type: root}
		for i := 0; i < rv.Len(); i++ {
			e, err := Extract(rv.Index(i), root.Elem)
			if err != nil {
				return nil, err
			}
			if e == nil {
				if e = emptyContainer(root.Elem); e == nil {
					return nil, shape("nil element in list")
				}
			}
			v.Items = append(v.Items, e)
		}
		return v, nil
	case idlm.TSet:
		v := &idlm.LVal{K: idlm.LSet, Type: root}
		switch rv.Kind() {
		case reflect.Map:
			if rv.IsNil() {
				return nil, nil
			}
			for _, k := range rv.MapKeys() {
				e, err := Extract(k, root.Elem)
				if err != nil {
					return nil, err
				}
				v.Items = append(v.Items, e)
			}
		case reflect.Slice:
			if rv.IsNil() {
				return nil, nil
			}
			for i := 0; i < rv.Len(); i++ {
				e, err := Extract(rv.Index(i), root.Elem)
				if err != nil {
					return nil, err
				}
				if e == nil {
					return nil, shape("nil element in set")
				}
				v.Items = append(v.Items, e)
			}
		default:
			return nil, shape("set from %v", rv.Type())
		}
		return v, nil
	case idlm.TMap:
		v := &idlm.LVal{K: idlm.LMap, Type: root}
		switch rv.Kind() {
		case reflect.Map:
			if rv.IsNil() {
				return nil, nil
			}
			it := rv.MapRange()
			for it.Next() {
				k, err := Extract(it.Key(), root.Key)
				if err != nil {
					return nil, err
				}
				x, err := Extract(it.Value(), root.Elem)
				if err != nil {
					return nil, err
				}
				if x == nil {
					x = emptyContainer(root.Elem)
				}
				if k == nil || x == nil {
					return nil, shape("nil key or value in map")
				}
				v.Items = append(v.Items, k, x)
			}
		case reflect.Slice:
			if rv.IsNil() {
				return nil, nil
			}
			for i := 0; i < rv.Len(); i++ {
				e := rv.Index(i)
				if e.Kind() != reflect.Struct || e.NumField() != 2 {
					return nil, shape("map from %v", rv.Type())
				}
				k, err := Extract(e.Field(0), root.Key)
				if err != nil {
					return nil, err
				}
				x, err := Extract(e.Field(1), root.Elem)
				if err != nil {
					return nil, err
				}
				if k == nil || x == nil {
					return nil, shape("nil key or value in map")
				}
				v.Items = append(v.Items, k, x)
			}
		default:
			return nil, shape("map from %v", rv.Type())
		}
		return v, nil
	case idlm.TNamed:
		switch d := root.Target.(type) {
		case *idlm.Enum:
			if rv.Kind() != reflect.Int32 {
				return nil, shape("enum from %v", rv.Type())
			}
			v := &idlm.LVal{K: idlm.LEnum, I: rv.Int(), Type: root}
			for _, it := range d.Items {
				if it.Value == v.I {
					v.Item = it
					break
				}
			}
			return v, nil
		case *idlm.Struct:
			if rv.Kind() != reflect.Struct {
				return nil, shape("struct from %v", rv.Type())
			}
			if rv.NumField() != len(d.Fields) {
				return nil, shape("struct %s has %d fields, Go value %v has %d", d.Name, len(d.Fields), rv.Type(), rv.NumField())
			}
			v := &idlm.LVal{K: idlm.LStruct, Type: root, Fields: map[string]*idlm.LVal{}}
			for i, fl := range d.Fields {
				e, err := Extract(rv.Field(i), fl.Type)
				if err != nil {
					return nil, err
				}
				if e != nil {
					v.Fields[fl.Name] = e
				}
			}
			return v, nil
		}
	}
	return nil, shape("unsupported type %s", idlm.TypeString(t))
}

var _ = math.MaxInt8

// emptyContainer: inside a container there is no "unset"; a nil slice or map
// element is an empty container.
func emptyContainer(t *idlm.TypeRef) *idlm.LVal {
	rt := t.Root()
	switch rt.Kind {
	case idlm.TList:
		return &idlm.LVal{K: idlm.LList, Type: rt}
	case idlm.TSet:
		return &idlm.LVal{K: idlm.LSet, Type: rt}
	case idlm.TMap:
		return &idlm.LVal{K: idlm.LMap, Type: rt}
	}
	return nil
}
