package genlab

import (
	"fmt"
	"os"
	"os/exec"
	"path/filepath"
	"sort"
	"strings"

	"verif/harness/core"
	"verif/harness/idlm"
)

// NamedSpec returns the program family of a stream name. Orchestrator and
// driver both call it, so the families are defined once.
func NamedSpec(stream string, off map[string]bool, from, to uint64) Spec {
	base := func(i uint64, rng *core.Rand) idlm.SemOpts {
		return idlm.SemOpts{MaxFiles: 4, MaxDefs: 6, Services: true, Constants: true, Defaults: true, Dirs: rng.Chance(2, 3), ForGen: true,
			GoAnns: rng.Chance(2, 3), Redact: rng.Chance(1, 2), PkgNameClash: rng.Chance(1, 3), ServiceBias: rng.Chance(1, 3), ChainMode: rng.Chance(1, 6), ManyTypes: rng.Chance(1, 5), TypedefZoo: rng.Chance(1, 4), Off: off}
	}
	cli := func(i uint64, rng *core.Rand) CLIOpts {
		o := CLIOpts{NoZap: rng.Chance(1, 3), StrictEnumText: rng.Chance(1, 3), PerModule: rng.Chance(1, 4), InferRoot: rng.Chance(1, 4)}
		if rng.Chance(1, 8) {
			o.OutputFile = "types.go"
		}
		if o.PerModule || o.OutputFile != "" {
			// one run per file: an inferred root would differ from run to run
			o.InferRoot = false
		}
		return o
	}
	lay := func(i uint64, rng *core.Rand) idlm.Layout {
		if rng.Chance(1, 4) {
			return idlm.WildLayout
		}
		return idlm.PlainLayout
	}
	s := Spec{Stream: stream, From: from, To: to, Sem: base, CLI: cli, Layout: lay}
	switch stream {
	case "hostile":
		s.Mutate = func(i uint64, rng *core.Rand, p *idlm.Program) { idlm.MakeHostile(p, rng) }
	case "redact":
		s.Sem = func(i uint64, rng *core.Rand) idlm.SemOpts {
			o := base(i, rng)
			o.Redact, o.GoAnns = true, rng.Bool()
			return o
		}
		s.CLI = func(i uint64, rng *core.Rand) CLIOpts { return CLIOpts{StrictEnumText: rng.Bool()} } // zap on
	case "evo":
		// even index: writer schema; odd index: the same program evolved
		s.Base = func(i uint64) uint64 { return i - i%2 }
		s.Sem = func(i uint64, rng *core.Rand) idlm.SemOpts {
			return idlm.SemOpts{MaxFiles: 3, MaxDefs: 6, Defaults: true, ScalarDefaultsOnly: true, Dirs: rng.Bool(), ForGen: true, GoAnns: rng.Bool(), Off: off}
		}
		s.CLI = func(i uint64, rng *core.Rand) CLIOpts { return CLIOpts{NoZap: rng.Bool()} }
		s.Layout = nil
		s.Mutate = func(i uint64, rng *core.Rand, p *idlm.Program) {
			if i%2 == 1 {
				idlm.Evolve(p, rng)
			}
		}
	case "svc":
		s.Sem = func(i uint64, rng *core.Rand) idlm.SemOpts {
			o := base(i, rng)
			o.ServiceBias, o.GoAnns = true, true
			return o
		}
	case "plug":
		// service-heavy programs generated with the assertion plugin attached
		s.Sem = func(i uint64, rng *core.Rand) idlm.SemOpts {
			o := base(i, rng)
			// ServiceBias prefers parents from included files; without it parents are mostly in the same file
			o.ServiceBias, o.GoAnns, o.ChainMode = rng.Chance(2, 3), rng.Chance(2, 3), rng.Chance(1, 3)
			o.TypedefZoo = rng.Chance(2, 3)
			o.MaxDefs = 8
			return o
		}
		s.CLI = func(i uint64, rng *core.Rand) CLIOpts {
			o := cli(i, rng)
			o.OutputFile = ""
			o.PerModule = rng.Chance(1, 3)
			if o.PerModule {
				o.InferRoot = false
			}
			o.Plugin = "verifassert"
			return o
		}
	}
	return s
}

func upperFirst(s string) string {
	if s == "" {
		return s
	}
	return strings.ToUpper(s[:1]) + s[1:]
}

func annValue(as []idlm.Ann, name string) (string, bool) {
	for _, a := range as {
		if a.Name == name {
			return a.Value, true
		}
	}
	return "", false
}

// GoTypeName is the documented Go name of a definition in the SAFE vocabulary
// (no underscores, no initialisms): go.name if given, else the thrift name
// with its first letter upper-cased.
func GoTypeName(d idlm.Def) string {
	if t, ok := d.(*idlm.Typedef); ok {
		if v, ok := annValue(t.Ann, "go.name"); ok {
			return v
		}
	}
	return upperFirst(d.DefName())
}

// WriteDriver writes the registry glue (package main under drv/) for every
// program of the batch that was generated and compiled.
func (b *Batch) WriteDriver() error {
	var imports, types, consts, defaults, funcs []string
	for _, pr := range b.Progs {
		if !pr.GenOK || !pr.BuildOK {
			continue
		}
		for k, f := range pr.P.Files {
			alias := fmt.Sprintf("p%d_%d", pr.Index, k)
			used := false
			for _, d := range f.Defs {
				switch d := d.(type) {
				case *idlm.Struct:
					used = true
					types = append(types, fmt.Sprintf("{Prog: %d, File: %q, Name: %q, Kind: \"struct\", New: func() any { return new(%s.%s) }},", pr.Index, f.Path, d.Name, alias, GoTypeName(d)))
					hasDef := false
					for _, fl := range d.Fields {
						if fl.Default != nil {
							hasDef = true
						}
					}
					if hasDef {
						defaults = append(defaults, fmt.Sprintf("{Prog: %d, File: %q, Name: %q, Get: func() any { return %s.Default_%s() }},", pr.Index, f.Path, d.Name, alias, GoTypeName(d)))
					}
				case *idlm.Enum:
					used = true
					types = append(types, fmt.Sprintf("{Prog: %d, File: %q, Name: %q, Kind: \"enum\", New: func() any { return new(%s.%s) }},", pr.Index, f.Path, d.Name, alias, GoTypeName(d)))
				case *idlm.Typedef:
					used = true
					types = append(types, fmt.Sprintf("{Prog: %d, File: %q, Name: %q, Kind: \"typedef\", New: func() any { return new(%s.%s) }},", pr.Index, f.Path, d.Name, alias, GoTypeName(d)))
				case *idlm.Constant:
					used = true
					consts = append(consts, fmt.Sprintf("{Prog: %d, File: %q, Name: %q, Get: func() any { return %s.%s }},", pr.Index, f.Path, d.Name, alias, upperFirst(d.Name)))
				case *idlm.Service:
					for _, fn := range d.Funcs {
						used = true
						pfx := fmt.Sprintf("%s.%s_%s_", alias, upperFirst(d.Name), upperFirst(fn.Name))
						res := "nil"
						if !fn.OneWay {
							res = fmt.Sprintf("func() any { return new(%sResult) }", pfx)
						}
						funcs = append(funcs, fmt.Sprintf("{Prog: %d, File: %q, Service: %q, Func: %q, NewArgs: func() any { return new(%sArgs) }, NewResult: %s, Helper: %sHelper},", pr.Index, f.Path, d.Name, fn.Name, pfx, res, pfx))
					}
				}
			}
			if used {
				imports = append(imports, fmt.Sprintf("%s %q", alias, pr.GoPkg(f)))
			}
		}
	}
	sort.Strings(imports)
	src := "// Code generated by verif genlab. DO NOT EDIT.\npackage main\n\nimport (\n\t\"verif/harness/genlab/drv\"\n\n\t" + strings.Join(imports, "\n\t") + "\n)\n\n" +
		"func main() {\n\tdrv.Main(&drv.Registry{\n\t\tTypes: []drv.TypeEntry{\n\t\t\t" + strings.Join(types, "\n\t\t\t") + "\n\t\t},\n\t\tConsts: []drv.ValueEntry{\n\t\t\t" + strings.Join(consts, "\n\t\t\t") +
		"\n\t\t},\n\t\tDefaults: []drv.ValueEntry{\n\t\t\t" + strings.Join(defaults, "\n\t\t\t") + "\n\t\t},\n\t\tFuncs: []drv.FuncEntry{\n\t\t\t" + strings.Join(funcs, "\n\t\t\t") + "\n\t\t},\n\t})\n}\n"
	dir := filepath.Join(b.Dir, "mod", "drv")
	os.MkdirAll(dir, 0o755)
	return os.WriteFile(filepath.Join(dir, "main.go"), []byte(src), 0o644)
}

// BuildDriver compiles the driver; a failure inside the glue is a harness
// problem (reported as such), never a verdict about thriftrw.
func (b *Batch) BuildDriver(extra ...string) (string, string, error) {
	out := filepath.Join(b.Dir, "driver")
	args := append([]string{"build"}, extra...)
	args = append(args, "-o", out, "./drv")
	cmd := exec.Command("go", args...)
	cmd.Dir = filepath.Join(b.Dir, "mod")
	cmd.Env = append(os.Environ(), "GOFLAGS=-mod=mod")
	o, err := cmd.CombinedOutput()
	return out, string(o), err
}
