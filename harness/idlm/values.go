package idlm

import (
	"fmt"
	"math"
	"sort"
	"strconv"
	"strings"

	"verif/harness/core"
	rc "verif/harness/refcodec"
)

// ---- canonical keys with bitwise doubles (round-trip questions) -----------------

// LKeyBits is LKey with doubles compared by bit pattern.
func LKeyBits(v *LVal) string {
	if v == nil {
		return "<unset>"
	}
	switch v.K {
	case LDouble:
		return "f" + strconv.FormatUint(math.Float64bits(v.F), 16)
	case LList:
		var p []string
		for _, it := range v.Items {
			p = append(p, LKeyBits(it))
		}
		return "[" + strings.Join(p, ",") + "]"
	case LSet:
		var p []string
		for _, it := range v.Items {
			p = append(p, LKeyBits(it))
		}
		sort.Strings(p)
		return "set[" + strings.Join(p, ",") + "]"
	case LMap:
		var p []string
		for i := 0; i+1 < len(v.Items); i += 2 {
			p = append(p, LKeyBits(v.Items[i])+":"+LKeyBits(v.Items[i+1]))
		}
		sort.Strings(p)
		return "{" + strings.Join(p, ",") + "}"
	case LStruct:
		var names []string
		for n := range v.Fields {
			names = append(names, n)
		}
		sort.Strings(names)
		var p []string
		for _, n := range names {
			p = append(p, n+"="+LKeyBits(v.Fields[n]))
		}
		return "struct{" + strings.Join(p, ",") + "}"
	}
	return LKey(v)
}

// ---- wire type codes ---------------------------------------------------------------

// WireType is the Thrift type code of a type.
func WireType(t *TypeRef) byte {
	rt := t.Root()
	switch rt.Kind {
	case TBase:
		switch rt.Base {
		case BBool:
			return rc.TBool
		case BI8:
			return rc.TI8
		case BI16:
			return rc.TI16
		case BI32:
			return rc.TI32
		case BI64:
			return rc.TI64
		case BDouble:
			return rc.TDouble
		default:
			return rc.TBinary
		}
	case TMap:
		return rc.TMap
	case TList:
		return rc.TList
	case TSet:
		return rc.TSet
	}
	if _, ok := rt.Target.(*Enum); ok {
		return rc.TI32
	}
	return rc.TStruct
}

// ---- value generation ---------------------------------------------------------------

type ValOpts struct {
	MaxDepth int
	MaxLen   int
	NaN      bool          // allow NaN outside set elements / map keys
	Marker   func() string // when set, strings and binaries are unique markers
}

var DefaultVal = ValOpts{MaxDepth: 4, MaxLen: 3, NaN: true}

// GenValue draws a valid value of type t.
func GenValue(r *core.Rand, t *TypeRef, o ValOpts) *LVal {
	return genValue(r, t, o, 0, false)
}

func genValue(r *core.Rand, t *TypeRef, o ValOpts, depth int, keyPos bool) *LVal {
	rt := t.Root()
	switch rt.Kind {
	case TBase:
		switch rt.Base {
		case BBool:
			return &LVal{K: LBool, B: r.Bool(), Type: rt}
		case BI8:
			return &LVal{K: LInt, I: int64(int8(r.Int64())), Type: rt}
		case BI16:
			return &LVal{K: LInt, I: int64(int16(r.Int64())), Type: rt}
		case BI32:
			return &LVal{K: LInt, I: int64(int32(r.Int64())), Type: rt}
		case BI64:
			return &LVal{K: LInt, I: r.Int64(), Type: rt}
		case BDouble:
			return &LVal{K: LDouble, F: math.Float64frombits(r.F64Bits(o.NaN && !keyPos)), Type: rt}
		default:
			if o.Marker != nil {
				return &LVal{K: LString, S: o.Marker(), Type: rt}
			}
			s := randString(r)
			if r.Chance(1, 8) {
				s = string(r.Bytes(r.Intn(40)))
			}
			return &LVal{K: LString, S: s, Type: rt}
		}
	case TList, TSet:
		v := &LVal{K: LList, Type: rt}
		if rt.Kind == TSet {
			v.K = LSet
		}
		n := 0
		if depth < o.MaxDepth {
			n = r.Intn(o.MaxLen + 1)
		}
		seen := map[string]bool{}
		for i := 0; i < n; i++ {
			it := genValue(r, rt.Elem, o, depth+1, keyPos || rt.Kind == TSet)
			if rt.Kind == TSet {
				// distinct also after defaults are filled in (what a reader sees)
				k := LKey(FillDefaults(it))
				if seen[k] {
					continue
				}
				seen[k] = true
			}
			v.Items = append(v.Items, it)
		}
		return v
	case TMap:
		v := &LVal{K: LMap, Type: rt}
		n := 0
		if depth < o.MaxDepth {
			n = r.Intn(o.MaxLen + 1)
		}
		seen := map[string]bool{}
		for i := 0; i < n; i++ {
			k := genValue(r, rt.Key, o, depth+1, true)
			ks := LKey(FillDefaults(k))
			if seen[ks] {
				continue
			}
			seen[ks] = true
			v.Items = append(v.Items, k, genValue(r, rt.Elem, o, depth+1, keyPos))
		}
		return v
	case TNamed:
		switch d := rt.Target.(type) {
		case *Enum:
			if len(d.Items) > 0 && r.Chance(4, 5) {
				it := d.Items[r.Intn(len(d.Items))]
				return &LVal{K: LEnum, I: it.Value, Item: it, Type: rt}
			}
			return &LVal{K: LEnum, I: int64(int32(r.Int64())), Type: rt} // any i32 is a legal enum on the wire
		case *Struct:
			v := &LVal{K: LStruct, Type: rt, Fields: map[string]*LVal{}}
			if d.Kind == KUnion {
				fl := d.Fields[0]
				if depth < o.MaxDepth {
					fl = d.Fields[r.Intn(len(d.Fields))]
				}
				v.Fields[fl.Name] = genValue(r, fl.Type, o, depth+1, keyPos)
				return v
			}
			for _, fl := range d.Fields {
				need := fl.Req == ReqRequired && fl.Default == nil
				if need || (depth < o.MaxDepth && r.Bool()) {
					v.Fields[fl.Name] = genValue(r, fl.Type, o, depth+1, keyPos)
				}
			}
			return v
		}
	}
	panic("genValue: unsupported type " + TypeString(t))
}

// FillDefaults returns v with declared defaults applied to unset fields of
// every struct value inside it (what a reader reports after decoding, and what
// a writer puts on the wire).
func FillDefaults(v *LVal) *LVal {
	if v == nil {
		return nil
	}
	out := *v
	switch v.K {
	case LList, LSet, LMap:
		out.Items = make([]*LVal, len(v.Items))
		for i, it := range v.Items {
			out.Items[i] = FillDefaults(it)
		}
	case LStruct:
		out.Fields = map[string]*LVal{}
		d := v.Type.Root().Target.(*Struct)
		for _, fl := range d.Fields {
			if fv, ok := v.Fields[fl.Name]; ok {
				out.Fields[fl.Name] = FillDefaults(fv)
			} else if fl.Default != nil && d.Kind != KUnion {
				out.Fields[fl.Name] = FillDefaults(Eval(fl.Default, fl.Type))
			}
		}
	}
	return &out
}

// ---- LVal <-> wire trees ---------------------------------------------------------------

// LowerOpts chooses among the equivalent encodings of a value.
type LowerOpts struct {
	R       *core.Rand // nil = declaration order
	Shuffle bool       // permute struct fields and set/map entries
}

// Lower encodes a logical value as a wire tree of its type.
func Lower(v *LVal, t *TypeRef, o LowerOpts) rc.W {
	rt := t.Root()
	switch v.K {
	case LBool:
		return rc.Bool(v.B)
	case LInt:
		switch rt.Base {
		case BI8:
			return rc.I8(int8(v.I))
		case BI16:
			return rc.I16(int16(v.I))
		case BI32:
			return rc.I32(int32(v.I))
		}
		return rc.I64(v.I)
	case LDouble:
		return rc.Double(math.Float64bits(v.F))
	case LString:
		return rc.Binary([]byte(v.S))
	case LEnum:
		return rc.I32(int32(v.I))
	case LList, LSet:
		w := rc.W{T: rc.TList, VT: WireType(rt.Elem)}
		if v.K == LSet {
			w.T = rc.TSet
		}
		idx := order(len(v.Items), o, v.K == LSet)
		for _, i := range idx {
			w.Items = append(w.Items, Lower(v.Items[i], rt.Elem, o))
		}
		return w
	case LMap:
		w := rc.W{T: rc.TMap, KT: WireType(rt.Key), VT: WireType(rt.Elem)}
		idx := order(len(v.Items)/2, o, true)
		for _, i := range idx {
			w.Items = append(w.Items, Lower(v.Items[2*i], rt.Key, o), Lower(v.Items[2*i+1], rt.Elem, o))
		}
		return w
	case LStruct:
		d := rt.Target.(*Struct)
		w := rc.W{T: rc.TStruct}
		idx := order(len(d.Fields), o, true)
		for _, i := range idx {
			fl := d.Fields[i]
			if fv, ok := v.Fields[fl.Name]; ok {
				w.Fields = append(w.Fields, rc.Field{ID: int16(fl.ID), V: Lower(fv, fl.Type, o)})
			}
		}
		return w
	}
	panic("Lower: bad value")
}

func order(n int, o LowerOpts, unordered bool) []int {
	if o.R != nil && o.Shuffle && unordered {
		return o.R.Perm(n)
	}
	idx := make([]int, n)
	for i := range idx {
		idx[i] = i
	}
	return idx
}

// ErrProject explains why a wire tree is not a value of the schema.
type ErrProject struct {
	Why string
	// Undetermined: the outcome depends on how a container with retyped
	// elements is reported (the only member of a union).
	Undetermined bool
}

func (e *ErrProject) Error() string { return e.Why }

// Project reads a wire tree as a value of type t the way the documentation of
// struct reading prescribes: fields are matched by id and wire type, anything
// else is ignored, the last occurrence of a field wins, absent fields stay
// unset (defaults are applied separately by FillDefaults), a required field
// without default that is absent is an error, a union must end with exactly
// one member.
func Project(w rc.W, t *TypeRef) (*LVal, error) { return project(w, t, false) }

// ProjectEvolved is Project for a reader whose schema differs from the
// writer's: a container whose element wire type differs is reported as an
// ambiguous value instead of an error.
func ProjectEvolved(w rc.W, t *TypeRef) (*LVal, error) { return project(w, t, true) }

func project(w rc.W, t *TypeRef, evolved bool) (*LVal, error) {
	rt := t.Root()
	if w.T != WireType(rt) {
		return nil, &ErrProject{Why: fmt.Sprintf("wire type %d where %s (%d) is expected", w.T, TypeString(t), WireType(rt))}
	}
	switch rt.Kind {
	case TBase:
		switch rt.Base {
		case BBool:
			return &LVal{K: LBool, B: w.I != 0, Type: rt}, nil
		case BI8, BI16, BI32, BI64:
			return &LVal{K: LInt, I: w.I, Type: rt}, nil
		case BDouble:
			return &LVal{K: LDouble, F: math.Float64frombits(w.F), Type: rt}, nil
		default:
			return &LVal{K: LString, S: string(w.B), Type: rt}, nil
		}
	case TList, TSet:
		v := &LVal{K: LList, Type: rt}
		if rt.Kind == TSet {
			v.K = LSet
		}
		if evolved && w.VT != WireType(rt.Elem) {
			v.Ambig = true
			return v, nil
		}
		if len(w.Items) > 0 && w.VT != WireType(rt.Elem) {
			return nil, &ErrProject{Why: "container element wire type differs"}
		}
		for _, it := range w.Items {
			x, err := project(it, rt.Elem, evolved)
			if err != nil {
				return nil, err
			}
			v.Items = append(v.Items, x)
		}
		return v, nil
	case TMap:
		v := &LVal{K: LMap, Type: rt}
		if evolved && (w.KT != WireType(rt.Key) || w.VT != WireType(rt.Elem)) {
			v.Ambig = true
			return v, nil
		}
		if len(w.Items) > 0 && (w.KT != WireType(rt.Key) || w.VT != WireType(rt.Elem)) {
			return nil, &ErrProject{Why: "map key/value wire type differs"}
		}
		for i := 0; i+1 < len(w.Items); i += 2 {
			k, err := project(w.Items[i], rt.Key, evolved)
			if err != nil {
				return nil, err
			}
			x, err := project(w.Items[i+1], rt.Elem, evolved)
			if err != nil {
				return nil, err
			}
			v.Items = append(v.Items, k, x)
		}
		return v, nil
	case TNamed:
		switch d := rt.Target.(type) {
		case *Enum:
			v := &LVal{K: LEnum, I: w.I, Type: rt}
			for _, it := range d.Items {
				if it.Value == w.I {
					v.Item = it
					break
				}
			}
			return v, nil
		case *Struct:
			v := &LVal{K: LStruct, Type: rt, Fields: map[string]*LVal{}}
			for _, wf := range w.Fields {
				for _, fl := range d.Fields {
					if int16(fl.ID) == wf.ID && WireType(fl.Type) == wf.V.T {
						x, err := project(wf.V, fl.Type, evolved)
						if err != nil {
							return nil, err
						}
						v.Fields[fl.Name] = x
					}
				}
			}
			if d.Kind == KUnion {
				amb := 0
				for _, x := range v.Fields {
					if x.Ambig {
						amb++
					}
				}
				if amb > 0 && len(v.Fields)-amb <= 1 {
					return nil, &ErrProject{Why: "union " + d.Name + " whose member count depends on a container with retyped elements", Undetermined: true}
				}
				if len(v.Fields) != 1 {
					return nil, &ErrProject{Why: fmt.Sprintf("union %s with %d members set", d.Name, len(v.Fields))}
				}
				return v, nil
			}
			for _, fl := range d.Fields {
				if fl.Req == ReqRequired && fl.Default == nil {
					if _, ok := v.Fields[fl.Name]; !ok {
						return nil, &ErrProject{Why: fmt.Sprintf("required field %s.%s is absent or mistyped", d.Name, fl.Name)}
					}
				}
			}
			return v, nil
		}
	}
	return nil, &ErrProject{Why: "unsupported type"}
}

// StructDefs lists the struct-like definitions of a program with their files.
func (p *Program) StructDefs() []struct {
	F *File
	S *Struct
} {
	var out []struct {
		F *File
		S *Struct
	}
	for _, f := range p.Files {
		for _, d := range f.Defs {
			if s, ok := d.(*Struct); ok {
				out = append(out, struct {
					F *File
					S *Struct
				}{f, s})
			}
		}
	}
	return out
}

// TypeOf returns a type expression denoting the definition d of file f.
func TypeOf(f *File, d Def) *TypeRef {
	return &TypeRef{Kind: TNamed, Name: d.DefName(), Target: d, TFile: f}
}

// HasAmbig reports whether a value contains an ambiguous container.
func HasAmbig(v *LVal) bool {
	if v == nil {
		return false
	}
	if v.Ambig {
		return true
	}
	for _, it := range v.Items {
		if HasAmbig(it) {
			return true
		}
	}
	for _, f := range v.Fields {
		if HasAmbig(f) {
			return true
		}
	}
	return false
}

// Matches compares an expectation (which may contain ambiguous containers)
// with an observed value, bitwise on doubles.
func Matches(want, got *LVal) bool {
	if want == nil {
		return got == nil
	}
	if want.Ambig {
		return got == nil || ((got.K == LList || got.K == LSet || got.K == LMap) && len(got.Items) == 0)
	}
	if got == nil || want.K != got.K {
		return false
	}
	if !HasAmbig(want) {
		return LKeyBits(want) == LKeyBits(got)
	}
	switch want.K {
	case LList:
		if len(want.Items) != len(got.Items) {
			return false
		}
		for i := range want.Items {
			if !Matches(want.Items[i], got.Items[i]) {
				return false
			}
		}
		return true
	case LSet:
		if len(want.Items) != len(got.Items) {
			return false
		}
		used := make([]bool, len(got.Items))
		for _, w := range want.Items {
			ok := false
			for j, g := range got.Items {
				if !used[j] && Matches(w, g) {
					used[j], ok = true, true
					break
				}
			}
			if !ok {
				return false
			}
		}
		return true
	case LMap:
		if len(want.Items) != len(got.Items) {
			return false
		}
		used := make([]bool, len(got.Items)/2)
		for i := 0; i+1 < len(want.Items); i += 2 {
			ok := false
			for j := 0; j+1 < len(got.Items); j += 2 {
				if !used[j/2] && Matches(want.Items[i], got.Items[j]) && Matches(want.Items[i+1], got.Items[j+1]) {
					used[j/2], ok = true, true
					break
				}
			}
			if !ok {
				return false
			}
		}
		return true
	case LStruct:
		names := map[string]bool{}
		for n := range want.Fields {
			names[n] = true
		}
		for n := range got.Fields {
			names[n] = true
		}
		for n := range names {
			if !Matches(want.Fields[n], got.Fields[n]) {
				return false
			}
		}
		return true
	}
	return LKeyBits(want) == LKeyBits(got)
}
