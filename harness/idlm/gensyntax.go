package idlm

import (
	"fmt"
	"strconv"
	"strings"

	"verif/harness/core"
)

// Words that cannot be identifiers: Thrift keywords and the reserved list of
// the Thrift IDL (both from the Apache Thrift language definition).
var reservedWords = map[string]bool{}

func init() {
	for _, w := range strings.Fields(`include cpp_include namespace void bool byte i8 i16 i32 i64 double string binary map list set
		oneway typedef struct union exception extends throws service enum const required optional true false
		BEGIN END __CLASS__ __DIR__ __FILE__ __FUNCTION__ __LINE__ __METHOD__ __NAMESPACE__ abstract alias and args as assert begin break case catch class clone continue declare def default del delete do dynamic elif else elseif elsif end enddeclare endfor endforeach endif endswitch endwhile ensure except exec finally float for foreach from function global goto if implements import in inline instanceof interface is lambda module native new next nil not or package pass public print private protected raise redo rescue retry register return self sizeof static super switch synchronized then this throw transient try undef unless unsigned until use var virtual volatile when while with xor yield`) {
		reservedWords[w] = true
	}
}

// IsReserved reports whether w cannot be used as an identifier.
func IsReserved(w string) bool {
	if reservedWords[w] {
		return true
	}
	// a reserved word or keyword followed by more identifier characters is a
	// plain identifier for the longest-match lexer
	return false
}

const identStart = "abcdefghijklmnopqrstuvwxyzABCDEFGHIJKLMNOPQRSTUVWXYZ_"
const identRest = identStart + "0123456789"

// RandIdent draws a syntactically valid identifier (optionally dotted).
func RandIdent(r *core.Rand, dotted bool) string {
	for {
		n := r.Range(1, 9)
		b := make([]byte, 0, n+4)
		b = append(b, identStart[r.Intn(len(identStart))])
		for i := 1; i < n; i++ {
			b = append(b, identRest[r.Intn(len(identRest))])
		}
		s := string(b)
		if r.Chance(1, 6) {
			s = []string{"includes", "voidx", "i32x", "truely", "enumerate", "structs", "map_", "listOf", "constant", "requiredness", "iff", "x0x1", "e5", "E", "_", "__"}[r.Intn(16)]
		}
		if IsReserved(s) {
			continue
		}
		if dotted && r.Chance(1, 3) {
			s += "." + RandIdent(r, false)
		}
		return s
	}
}

func randDoc(r *core.Rand) *Doc {
	if !r.Chance(1, 3) {
		return nil
	}
	words := []string{"Doc", "for x.", "A 'quoted' thing", "returns \"y\"", "1 < 2", "# not a comment", "// neither", "ünï", "a*b", "/ slash", "x", "-", ".", "a  b", "*starred*"}
	switch r.Intn(5) {
	case 4:
		// the text starts on the line of the opening marker and continues on
		// star-decorated lines: every line has one space before its text once
		// the markers are gone, so nothing of the text's own indentation is lost
		n := r.Range(1, 3)
		first := words[r.Intn(len(words))]
		if strings.HasPrefix(first, "*") {
			first = "w" + first
		}
		lines := []string{first}
		raw := "/** " + first + "\n"
		for i := 0; i < n; i++ {
			l := words[r.Intn(len(words))]
			lines = append(lines, l)
			raw += " * " + l + "\n"
		}
		raw += " */"
		return &Doc{Raw: raw, Want: strings.Join(lines, "\n")}
	case 0:
		t := words[r.Intn(len(words))]
		sp1, sp2 := strings.Repeat(" ", r.Intn(3)), strings.Repeat(" ", r.Intn(3)+1)
		return &Doc{Raw: "/**" + sp1 + t + sp2 + "*/", Want: strings.TrimSpace(t)}
	case 1:
		// block without star decoration, uniformly indented
		n := r.Range(1, 3)
		var lines []string
		raw := "/**\n"
		for i := 0; i < n; i++ {
			l := words[r.Intn(len(words))]
			if strings.HasPrefix(l, "*") {
				l = "w" + l
			}
			lines = append(lines, l)
			raw += "   " + l + "\n"
		}
		raw += "*/"
		return &Doc{Raw: raw, Want: strings.Join(lines, "\n")}
	}
	// star-decorated block; bare " *" lines may open, interrupt or close the text
	n := r.Range(1, 4)
	var lines []string
	raw := "/**\n"
	for k := r.Intn(3) - 1; k > 0; k-- {
		raw += " *\n"
	}
	for i := 0; i < n; i++ {
		l := words[r.Intn(len(words))]
		lines = append(lines, l)
		raw += " * " + l + "\n"
		if i < n-1 && r.Chance(1, 4) {
			lines = append(lines, "")
			raw += " *\n"
		}
	}
	for k := r.Intn(3) - 1; k > 0; k-- {
		raw += " *\n"
	}
	raw += " */"
	return &Doc{Raw: raw, Want: strings.Join(lines, "\n")}
}

func randAnns(r *core.Rand, p int) []Ann {
	if !r.Chance(1, p) {
		return nil
	}
	var out []Ann
	for i := r.Intn(4); i >= 0; i-- {
		a := Ann{Name: RandIdent(r, true)}
		if r.Chance(3, 4) {
			a.HasValue = true
			a.Value = randString(r)
		}
		out = append(out, a)
	}
	if r.Chance(1, 8) {
		return []Ann{}[:0:0]
	}
	return out
}

func randString(r *core.Rand) string {
	switch r.Intn(8) {
	case 0:
		return ""
	case 1:
		return []string{`a\'b`, `\"`, `\\`, `it's`, `say "hi"`, `tab	x`, "line\nbreak", `\n`, "ünï✓", "\x00\x01\x7f", `'`, `"`, `\`, `\'\"`, `c:\dir\"q"`}[r.Intn(15)]
	case 2:
		b := r.Bytes(r.Intn(6))
		return string(b)
	}
	n := r.Intn(10)
	b := make([]byte, n)
	for i := range b {
		b[i] = " !#$%&()*+,-./0123456789:;<=>?@ABCXYZ[]^_`abcxyz{|}~'\"\\"[r.Intn(55)]
	}
	return string(b)
}

// RandIntLit draws an integer literal (decimal, signed or hex) and its value.
func RandIntLit(r *core.Rand) (string, int64) {
	v := r.Int64()
	switch r.Intn(7) {
	case 0:
		if v >= 0 {
			return "0x" + strconv.FormatInt(v, 16), v
		}
	case 1:
		if v >= 0 {
			return "+" + strconv.FormatInt(v, 10), v
		}
	case 2:
		if v >= 0 {
			u := strings.ToUpper(strconv.FormatInt(v, 16))
			return "0x" + strings.Repeat("0", r.Intn(3)) + u, v
		}
	case 3:
		// decimal with leading zeros stays decimal
		z := strings.Repeat("0", r.Range(1, 3))
		if v < 0 {
			if v == -9223372036854775808 {
				break
			}
			return "-" + z + strconv.FormatInt(-v, 10), v
		}
		return z + strconv.FormatInt(v, 10), v
	case 4:
		w := int64(r.Intn(100))
		pre := []string{"0", "00", "+0", "-0"}[r.Intn(4)]
		if pre == "-0" {
			return pre + strconv.FormatInt(w, 10), -w
		}
		return pre + strconv.FormatInt(w, 10), w
	}
	return strconv.FormatInt(v, 10), v
}

func randDoubleLit(r *core.Rand) (string, float64) {
	forms := []string{"2.718281828459045", "3.141592653589793", "0.30000000000000004", "1.0000000000000002", "-123456.78901234567", "9007199254740993.0", "1.5", "-2.25", "0.0", "5.", "1e5", "1E-3", "-1.5e+10", "+3.0", "123456789.125", "2.5E3", "0.1", "1e308", "4.9e-324", "-0.0", "6.02e23"}
	s := forms[r.Intn(len(forms))]
	if r.Chance(1, 4) {
		// many significant digits: not representable in less than 64 bits
		s = fmt.Sprintf("%d.%09d%07d", r.Intn(100), r.Intn(1000000000), r.Intn(10000000))
	} else if r.Chance(1, 3) {
		s = fmt.Sprintf("%d.%d", r.Intn(1000), r.Intn(1000))
		if r.Bool() {
			s += fmt.Sprintf("e%d", r.Intn(40)-20)
		}
		if r.Chance(1, 4) {
			s = "-" + s
		}
	}
	f, _ := strconv.ParseFloat(s, 64)
	return s, f
}

func randConst(r *core.Rand, depth int) *Const {
	k := r.Intn(9)
	if depth <= 0 && k >= 7 {
		k = r.Intn(7)
	}
	switch k {
	case 0, 1:
		lit, v := RandIntLit(r)
		return &Const{Kind: CInt, Int: v, Lit: lit}
	case 2:
		lit, v := randDoubleLit(r)
		return &Const{Kind: CDouble, Dbl: v, Lit: lit}
	case 3:
		return &Const{Kind: CBool, Bool: r.Bool()}
	case 4, 5:
		return &Const{Kind: CString, Str: randString(r), Single: r.Chance(1, 3)}
	case 6:
		return &Const{Kind: CRef, Ref: RandIdent(r, true)}
	case 7:
		c := &Const{Kind: CList}
		for i := r.Intn(4); i > 0; i-- {
			c.Items = append(c.Items, randConst(r, depth-1))
		}
		return c
	default:
		c := &Const{Kind: CMap}
		for i := r.Intn(4); i > 0; i-- {
			c.Items = append(c.Items, randConst(r, depth-1), randConst(r, depth-1))
			c.ItemPos = append(c.ItemPos, Pos{})
		}
		return c
	}
}

func randType(r *core.Rand, depth int) *TypeRef {
	k := r.Intn(8)
	if depth <= 0 && k >= 5 {
		k = r.Intn(5)
	}
	switch {
	case k < 3:
		t := &TypeRef{Kind: TBase, Base: BaseKind(r.Range(1, 8)), Ann: randAnns(r, 6)}
		if t.Base == BI8 && r.Bool() {
			t.AsByte = true
		}
		return t
	case k < 5:
		return &TypeRef{Kind: TNamed, Name: RandIdent(r, true)}
	case k == 5:
		return &TypeRef{Kind: TMap, Key: randType(r, depth-1), Elem: randType(r, depth-1), Ann: randAnns(r, 6)}
	case k == 6:
		return &TypeRef{Kind: TList, Elem: randType(r, depth-1), Ann: randAnns(r, 6)}
	default:
		return &TypeRef{Kind: TSet, Elem: randType(r, depth-1), Ann: randAnns(r, 6)}
	}
}

func randField(r *core.Rand) *Field {
	f := &Field{Name: RandIdent(r, false), Type: randType(r, 2), Req: Req(r.Intn(3)), Doc: randDoc(r), Ann: randAnns(r, 4)}
	if r.Chance(1, 5) {
		f.IDUnset = true
	} else {
		f.IDLit, f.ID = RandIntLit(r)
		if r.Chance(3, 4) {
			f.ID = int64(r.Range(1, 60))
			f.IDLit = fmt.Sprint(f.ID)
		}
	}
	if r.Chance(1, 3) {
		f.Default = randConst(r, 2)
	}
	return f
}

func randFields(r *core.Rand, max int) []*Field {
	var fs []*Field
	for i := r.Intn(max + 1); i > 0; i-- {
		fs = append(fs, randField(r))
	}
	return fs
}

// GenSyntaxFile draws a syntactically valid document over the full grammar;
// it need not be semantically valid.
func GenSyntaxFile(r *core.Rand) *File {
	f := &File{Path: "doc.thrift"}
	for i := r.Intn(4); i > 0; i-- {
		switch r.Intn(4) {
		case 0:
			h := &Header{Kind: "include", Path: "./" + RandIdent(r, false) + ".thrift"}
			if r.Chance(1, 5) {
				h.As = RandIdent(r, false)
			}
			if r.Chance(1, 4) {
				h.Path = randString(r)
			}
			f.Headers = append(f.Headers, h)
		case 1:
			f.Headers = append(f.Headers, &Header{Kind: "cpp_include", Path: "<" + RandIdent(r, false) + ">"})
		default:
			h := &Header{Kind: "namespace", Scope: RandIdent(r, true), Name: RandIdent(r, true)}
			if r.Chance(1, 3) {
				h.Scope = "*"
			}
			f.Headers = append(f.Headers, h)
		}
	}
	for i := r.Intn(7); i > 0; i-- {
		switch r.Intn(6) {
		case 0:
			f.Defs = append(f.Defs, &Constant{Name: RandIdent(r, false), Type: randType(r, 2), Value: randConst(r, 3), Doc: randDoc(r)})
		case 1:
			f.Defs = append(f.Defs, &Typedef{Name: RandIdent(r, false), Type: randType(r, 3), Ann: randAnns(r, 3), Doc: randDoc(r)})
		case 2:
			e := &Enum{Name: RandIdent(r, false), Ann: randAnns(r, 4), Doc: randDoc(r)}
			for k := r.Intn(6); k > 0; k-- {
				it := &EnumItem{Name: RandIdent(r, false), Ann: randAnns(r, 5), Doc: randDoc(r)}
				if r.Bool() {
					it.Explicit = true
					it.Lit, it.Value = RandIntLit(r)
				}
				e.Items = append(e.Items, it)
			}
			f.Defs = append(f.Defs, e)
		case 3, 4:
			f.Defs = append(f.Defs, &Struct{Kind: StructKind(r.Intn(3)), Name: RandIdent(r, false), Fields: randFields(r, 5), Ann: randAnns(r, 4), Doc: randDoc(r)})
		default:
			s := &Service{Name: RandIdent(r, false), Ann: randAnns(r, 4), Doc: randDoc(r)}
			if r.Chance(1, 3) {
				s.Parent = RandIdent(r, true)
			}
			for k := r.Intn(4); k > 0; k-- {
				fn := &Function{Name: RandIdent(r, false), OneWay: r.Chance(1, 4), Params: randFields(r, 3), Ann: randAnns(r, 5), Doc: randDoc(r)}
				if r.Chance(2, 3) {
					fn.Return = randType(r, 2)
				}
				if r.Chance(1, 3) {
					fn.Throws = randFields(r, 2)
					fn.HasThrows = true
				}
				s.Funcs = append(s.Funcs, fn)
			}
			f.Defs = append(f.Defs, s)
		}
	}
	return f
}
