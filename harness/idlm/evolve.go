package idlm

import (
	"strconv"

	"verif/harness/core"
)

func baseOrContainer(r *core.Rand) *TypeRef {
	b := &TypeRef{Kind: TBase, Base: BaseKind(r.Range(1, 8))}
	switch r.Intn(5) {
	case 0:
		return &TypeRef{Kind: TList, Elem: b}
	case 1:
		return &TypeRef{Kind: TSet, Elem: b}
	case 2:
		return &TypeRef{Kind: TMap, Key: &TypeRef{Kind: TBase, Base: []BaseKind{BI32, BString, BI64}[r.Intn(3)]}, Elem: b}
	}
	return b
}

// Evolve applies random schema-evolution steps to the struct-like definitions
// of a program (in place) and returns a description of each step. The program
// stays valid. Field defaults are left alone except on removed fields.
func Evolve(p *Program, r *core.Rand) []string {
	var log []string
	n := 0
	for _, f := range p.Files {
		for _, d := range f.Defs {
			s, ok := d.(*Struct)
			if !ok {
				continue
			}
			steps := r.Intn(4)
			for k := 0; k < steps; k++ {
				n++
				used := map[int64]bool{}
				for _, fl := range s.Fields {
					used[fl.ID] = true
				}
				freshID := func() int64 {
					for {
						id := int64(r.Range(1, 3000))
						if !used[id] {
							used[id] = true
							return id
						}
					}
				}
				op := r.Intn(8)
				switch {
				case op == 0: // add a field
					nf := &Field{ID: freshID(), Name: "evo" + strconv.Itoa(n), Type: baseOrContainer(r), Req: ReqOptional}
					nf.IDLit = strconv.FormatInt(nf.ID, 10)
					if s.Kind != KUnion {
						switch r.Intn(4) {
						case 0:
							nf.Req = ReqRequired
						case 1:
							if nf.Type.Kind == TBase && nf.Type.Base == BI32 {
								nf.Default = &Const{Kind: CInt, Int: 42, Lit: "42"}
							}
						}
					}
					pos := r.Intn(len(s.Fields) + 1)
					s.Fields = append(s.Fields[:pos:pos], append([]*Field{nf}, s.Fields[pos:]...)...)
					log = append(log, s.Name+": add field "+nf.Name)
				case op == 1 && len(s.Fields) > 1: // remove a field
					i := r.Intn(len(s.Fields))
					log = append(log, s.Name+": remove field "+s.Fields[i].Name)
					s.Fields = append(s.Fields[:i:i], s.Fields[i+1:]...)
				case op == 2 && len(s.Fields) > 0: // change a field's type (new wire type, or new element type)
					i := r.Intn(len(s.Fields))
					fl := *s.Fields[i]
					if fl.Default != nil {
						continue
					}
					old := fl.Type
					rt := old.Root()
					nt := baseOrContainer(r)
					if (rt.Kind == TList || rt.Kind == TSet) && r.Bool() {
						// same container kind, other element type ("widened")
						nt = &TypeRef{Kind: rt.Kind, Elem: &TypeRef{Kind: TBase, Base: BaseKind(r.Range(1, 8))}}
					}
					if rt.Kind == TMap && r.Bool() {
						// a map of which exactly one side is retyped
						if r.Bool() {
							nt = &TypeRef{Kind: TMap, Key: rt.Key, Elem: &TypeRef{Kind: TBase, Base: BaseKind(r.Range(1, 8))}}
						} else {
							nt = &TypeRef{Kind: TMap, Key: &TypeRef{Kind: TBase, Base: []BaseKind{BI8, BI16, BI32, BI64, BString, BBool, BDouble}[r.Intn(7)]}, Elem: rt.Elem}
						}
					}
					fl.Type = nt
					s.Fields[i] = &fl
					log = append(log, s.Name+": change type of "+fl.Name)
				case op == 3 && len(s.Fields) > 0 && s.Kind != KUnion: // change requiredness
					i := r.Intn(len(s.Fields))
					fl := *s.Fields[i]
					if fl.Req == ReqRequired {
						fl.Req = ReqOptional
					} else if structLike(fl.Type) == nil {
						fl.Req = ReqRequired
					}
					s.Fields[i] = &fl
					log = append(log, s.Name+": change requiredness of "+fl.Name)
				case op == 4: // reorder
					perm := r.Perm(len(s.Fields))
					nf := make([]*Field, len(s.Fields))
					for a, b := range perm {
						nf[a] = s.Fields[b]
					}
					s.Fields = nf
					log = append(log, s.Name+": reorder fields")
				case op == 5 && len(s.Fields) > 0: // rename
					i := r.Intn(len(s.Fields))
					fl := *s.Fields[i]
					fl.Name = "ren" + strconv.Itoa(n)
					s.Fields[i] = &fl
					log = append(log, s.Name+": rename a field")
				}
			}
		}
	}
	p.FixNames()
	return log
}
