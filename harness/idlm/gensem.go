package idlm

import (
	"fmt"
	"math"
	"path"
	"sort"
	"strconv"
	"strings"

	"verif/harness/core"
)

// SemOpts controls the generator of semantically valid ("SAFE") program sets.
type SemOpts struct {
	MaxFiles  int
	MaxDefs   int // definitions per file
	Services  bool
	Constants bool
	Defaults  bool
	Dirs      bool // nested directory layout
	// ForGen restricts programs to what Go code generation needs in addition
	// to compilation (acyclic includes, no dotted local names).
	ForGen         bool
	CyclicIncludes bool
	DottedLocal    bool
	NonStrict      bool // omit requiredness / ids sometimes (compile.NonStrict only)
	GoAnns         bool // go.name / go.label / go.tag / go.type
	Redact         bool // go.redact / go.nolog
	// Off lists feature classes that are switched off because an open finding
	// covers them (KNOWN_FINDINGS.txt); empty = everything on.
	Off map[string]bool
	// Bias
	ManyTypes bool
	// TypedefZoo: files declare a typedef for every root kind (each base type,
	// binary, enum, struct, every container flavour, typedef of typedef)
	TypedefZoo bool
	// ChainMode: the include skeleton is a path f0 -> f1 -> ... (plus random
	// extra edges from the root) and every file has a service extending the
	// next file's service: long inheritance chains across modules
	ChainMode bool
	// ScalarDefaultsOnly: no default contains a struct literal (used where field
	// sets are edited afterwards: struct literal keys would go stale)
	ScalarDefaultsOnly bool
	// ServiceBias: more services, inheritance chains preferably across files
	ServiceBias bool
	// DupLiterals: set literals may repeat an item (legal for a set; used where
	// only determinism / termination matter)
	DupLiterals bool
	// IncludeBias: more files per program and more base names shared between
	// directories (include-graph order effects)
	IncludeBias bool
	// PkgNameClash: file base names equal to packages the generated code imports
	PkgNameClash bool
}

func (o SemOpts) off(f string) bool { return o.Off != nil && o.Off[f] }

type defInfo struct {
	file *File
	def  Def
	rank int
}

type semGen struct {
	r      *core.Rand
	o      SemOpts
	p      *Program
	n      int // name counter
	all    []*defInfo
	byFile map[*File][]*defInfo
	rank   map[Def]int
	incl   map[*File][]*Header // direct includes
	// structLimit: while a default value is being drawn, struct values of this
	// rank or higher must not occur anywhere inside it (a default that contains
	// its own struct would expand for ever)
	structLimit int
	// noStructRefs: the value being drawn must not reference constants whose
	// value contains struct literals (see defaultOK)
	noStructRefs bool
	// pureOnly: struct literals being drawn give only fields whose type names
	// no definition (base types and containers of base types)
	pureOnly bool
	curFile      *File
	seq          int
	chainSvc     map[*File]*Service
}

func (g *semGen) name(prefix string) string {
	g.n++
	return fmt.Sprintf("%s%s%d", prefix, string(rune('a'+g.r.Intn(26))), g.n)
}

// GenProgram draws a program set that is valid by construction.
func GenProgram(r *core.Rand, o SemOpts) *Program {
	if o.MaxFiles <= 0 {
		o.MaxFiles = 3
	}
	if o.MaxDefs <= 0 {
		o.MaxDefs = 6
	}
	g := &semGen{r: r, o: o, structLimit: math.MaxInt32, byFile: map[*File][]*defInfo{}, rank: map[Def]int{}, incl: map[*File][]*Header{}}
	g.p = &Program{ThriftRoot: "idl"}
	nf := r.Range(1, o.MaxFiles)
	if o.IncludeBias && o.MaxFiles >= 4 && r.Chance(1, 2) {
		nf = r.Range(4, o.MaxFiles)
	}
	dirs := []string{"idl"}
	if o.Dirs {
		dirs = append(dirs, "idl/"+g.name("d"), "idl/shared", "idl/shared/"+g.name("sub"))
		if r.Chance(1, 3) {
			// sibling directories one of whose names is a string prefix of the
			// other, and nothing directly in their parent
			dirs = []string{"idl/shared", "idl/shared_models", "idl/shared/" + g.name("sub"), "idl/shared_models/v1", "idl/shared_models/v10"}
		}
	}
	lastClash := ""
	for i := 0; i < nf; i++ {
		d := dirs[r.Intn(len(dirs))]
		if len(dirs) == 5 && dirs[1] == "idl/shared_models" && i < 2 {
			d = dirs[i] // the root file in the directory with the shorter name, its first neighbour in the longer one
		}
		base := g.name("m")
		if o.PkgNameClash && r.Chance(1, 3) {
			base = []string{"fmt", "wire", "stream", "errors", "strings", "bytes", "base64", "math", "strconv", "zapcore", "multierr", "thriftreflect", "ptr", "json", "binary", "v2", "v3", "v2", "v3"}[r.Intn(19)]
			if lastClash != "" && r.Chance(1, 2) {
				// "strings" and "strings2": the second alias candidate of one is the name of the other
				base = lastClash + "2"
			}
			lastClash = base
			for _, f := range g.p.Files {
				if f.ModuleName() == base {
					base = g.name("m")
					lastClash = ""
				}
			}
		}
		// the same base name may occur in several directories
		if i > 0 && o.Dirs && (r.Chance(1, 3) || (o.IncludeBias && r.Chance(1, 3))) {
			prev := g.p.Files[r.Intn(i)]
			if path.Dir(prev.Path) != d {
				base = prev.ModuleName()
				taken := false
				for _, f := range g.p.Files {
					if f.Path == d+"/"+base+".thrift" {
						taken = true
					}
				}
				if taken {
					base = g.name("m")
				}
			}
		}
		g.p.Files = append(g.p.Files, &File{Path: d + "/" + base + ".thrift"})
	}
	// sibling files whose import aliases compete: <dir>/v2.thrift and
	// <dir>/v3.thrift, or <dir>/strings.thrift and <dir>/strings2.thrift (the
	// second alias candidate of one is the name of the other), both included
	// by the root
	siblings := false
	if o.PkgNameClash && nf >= 3 && !o.ChainMode && r.Chance(1, 3) {
		d := path.Dir(g.p.Files[1].Path)
		n1, n2 := "v2", "v3"
		if r.Bool() {
			n1 = []string{"fmt", "errors", "strings", "bytes", "base64", "math", "strconv", "wire", "stream", "zapcore", "multierr", "ptr", "thriftreflect"}[r.Intn(13)]
			n2 = n1 + "2"
		}
		free := true
		for k, f := range g.p.Files {
			if k != 1 && k != 2 && (f.ModuleName() == n1 || f.ModuleName() == n2) {
				free = false
			}
		}
		if free {
			g.p.Files[1].Path, g.p.Files[2].Path = d+"/"+n1+".thrift", d+"/"+n2+".thrift"
			siblings = g.include(g.p.Files[0], g.p.Files[1]) && g.include(g.p.Files[0], g.p.Files[2])
		}
	}
	_ = siblings
	pinned := map[*File]bool{}
	// two different files with one base name in different directories, reached
	// through different includers on the same level of the include graph
	if o.IncludeBias && nf >= 5 && !o.ChainMode && r.Chance(1, 3) {
		f := g.p.Files
		d3, d4 := path.Dir(f[3].Path), path.Dir(f[4].Path)
		np := d4 + "/" + f[3].ModuleName() + ".thrift"
		free := d3 != d4
		for _, x := range f {
			if x.Path == np {
				free = false
			}
		}
		if free {
			f[4].Path = np
			if g.include(f[0], f[1]) && g.include(f[0], f[2]) && g.include(f[1], f[3]) && g.include(f[2], f[4]) {
				// these two keep exactly the includer they were given
				pinned[f[3]], pinned[f[4]] = true, true
			}
		}
	}
	// include graph: every file but the first has an includer with a smaller
	// index; extra forward edges at random; back edges only when cycles are allowed
	if o.ChainMode {
		for j := 1; j < nf; j++ {
			if !g.include(g.p.Files[j-1], g.p.Files[j]) {
				g.p.Files[j].Path = path.Dir(g.p.Files[j].Path) + "/" + g.name("m") + ".thrift"
				g.include(g.p.Files[j-1], g.p.Files[j])
			}
		}
		for j := 2; j < nf; j++ {
			if r.Chance(1, 2) {
				g.include(g.p.Files[0], g.p.Files[j])
			}
		}
	}
	for j := 1; j < nf && !o.ChainMode; j++ {
		ok := pinned[g.p.Files[j]]
		for _, i := range r.Perm(j) {
			if ok {
				break
			}
			if g.include(g.p.Files[i], g.p.Files[j]) {
				ok = true
				break
			}
		}
		if !ok {
			// every candidate already includes a file of that name: rename
			g.p.Files[j].Path = path.Dir(g.p.Files[j].Path) + "/" + g.name("m") + ".thrift"
			g.include(g.p.Files[r.Intn(j)], g.p.Files[j])
		}
	}
	for i := 0; i < nf && !o.ChainMode; i++ {
		for j := i + 1; j < nf; j++ {
			if r.Chance(1, 3) && !pinned[g.p.Files[j]] {
				g.include(g.p.Files[i], g.p.Files[j])
			}
		}
	}
	if o.CyclicIncludes && !o.ForGen && nf > 1 && r.Chance(1, 2) {
		j := r.Range(1, nf-1)
		g.include(g.p.Files[j], g.p.Files[r.Intn(j)])
		if r.Chance(1, 4) {
			g.include(g.p.Files[j], g.p.Files[j]) // self include
		}
	}
	for _, f := range g.p.Files {
		if r.Chance(1, 3) {
			f.Headers = append(f.Headers, &Header{Kind: "namespace", Scope: []string{"go", "java", "*", "py"}[r.Intn(4)], Name: g.name("ns")})
		}
	}
	// pass 1: declare
	for _, f := range g.p.Files {
		g.curFile = f
		nd := r.Range(1, o.MaxDefs)
		if o.ManyTypes {
			nd = r.Range(o.MaxDefs, 2*o.MaxDefs)
		}
		for k := 0; k < nd; k++ {
			var d Def
			switch c := r.Intn(12); {
			case c < 2:
				d = &Typedef{Name: g.tname("Td")}
			case c < 4:
				d = &Enum{Name: g.ename()} // never dotted: Enum.ITEM references split at the first dot
			case c < 7:
				d = &Struct{Kind: KStruct, Name: g.tname("St")}
			case c < 8:
				d = &Struct{Kind: KUnion, Name: g.tname("Un")}
			case c < 9:
				d = &Struct{Kind: KException, Name: g.tname("Ex")}
			case c < 11 && !(o.ServiceBias && c >= 9):
				if !o.Constants {
					d = &Struct{Kind: KStruct, Name: g.tname("St")}
				} else {
					d = &Constant{Name: g.tname("kc")}
				}
			default:
				if !o.Services {
					d = &Enum{Name: g.name("En")}
				} else {
					d = &Service{Name: g.tname("Svc")}
				}
			}
			g.declare(f, d)
		}
	}
	if o.TypedefZoo {
		for _, f := range g.p.Files {
			if !r.Chance(2, 3) {
				continue
			}
			g.curFile = f
			for _, k := range r.Perm(len(zooKinds))[:r.Range(4, 9)] {
				g.declare(f, &Typedef{Name: g.tname("Tz"), Zoo: zooKinds[k]})
			}
		}
	}
	if o.ChainMode && o.Services {
		g.chainSvc = map[*File]*Service{}
		for _, f := range g.p.Files {
			g.curFile = f
			sv := &Service{Name: g.name("Chain")}
			g.chainSvc[f] = sv
			g.declare(f, sv)
		}
	}
	sort.SliceStable(g.all, func(a, b int) bool { return g.all[a].rank < g.all[b].rank })
	// pass 2: bodies, in rank order so that "lower rank" bodies exist when
	// values of them are needed (constants, defaults)
	for _, di := range g.all {
		if e, ok := di.def.(*Enum); ok {
			g.fillEnum(e)
		}
	}
	for _, di := range g.all {
		switch d := di.def.(type) {
		case *Typedef:
			d.Type = g.typeFor(di.file, di.rank, 2, false)
			if d.Zoo != "" {
				d.Type = g.zooType(di, d.Zoo)
			}
			d.Doc = g.doc()
			if o.GoAnns && r.Chance(1, 6) {
				d.Ann = append(d.Ann, Ann{Name: "go.name", Value: g.goName(), HasValue: true})
			}
		case *Struct:
			g.fillStruct(di, d)
		}
	}
	for _, di := range g.all {
		switch d := di.def.(type) {
		case *Constant:
			if d.Type != nil {
				if d.Value == nil {
					d.Value = g.constFor(di.file, d.Type, di.rank, 2)
				}
				continue
			}
			d.Type = g.constType(di.file, 2)
			d.Value = g.constFor(di.file, d.Type, di.rank, 2)
			d.Doc = g.doc()
		}
	}
	// defaults need constants; do them after constants exist
	if o.Defaults {
		for _, di := range g.all {
			if s, ok := di.def.(*Struct); ok && s.Kind != KUnion {
				for _, f := range s.Fields {
					if o.ScalarDefaultsOnly {
						in := map[*Struct]bool{}
						structsIn(f.Type, in, 0)
						if len(in) > 0 {
							continue
						}
					}
					if r.Chance(1, 3) && g.canHaveLiteral(f.Type) && g.defaultOK(di, f) {
						g.structLimit = di.rank
						f.Default = g.constFor(di.file, f.Type, math.MaxInt32, 1)
						g.structLimit = math.MaxInt32
						g.noStructRefs = false
						g.pureOnly = false
					}
				}
			}
		}
	}
	if o.Constants && !o.off("twin-structs") {
		g.twins() // after defaults: only structs without defaults get a twin
	}
	if o.Defaults && !o.ScalarDefaultsOnly && r.Chance(1, 5) {
		g.mutualDefaults()
	}
	if r.Chance(1, 6) {
		g.typedefKnot()
	}
	if o.Constants && o.ForGen && !o.off("const-refs") {
		g.constRefs()
	}
	for _, di := range g.all {
		if s, ok := di.def.(*Service); ok {
			g.fillService(di, s)
		}
	}
	// shuffle definition order inside files (forward references)
	for _, f := range g.p.Files {
		perm := r.Perm(len(f.Defs))
		nd := make([]Def, len(f.Defs))
		for i, k := range perm {
			nd[i] = f.Defs[k]
		}
		f.Defs = nd
	}
	return g.p
}

func (g *semGen) tname(prefix string) string {
	n := g.name(prefix)
	if g.curFile != nil && g.r.Chance(1, 6) {
		// reuse the name of a same-kind definition of another file: a bare
		// name must still bind to the definition in the same file
		var c []string
		for _, di := range g.all {
			if di.file != g.curFile && strings.HasPrefix(di.def.DefName(), prefix) && !strings.Contains(di.def.DefName(), ".") {
				c = append(c, di.def.DefName())
			}
		}
		if len(c) > 0 {
			cand := c[g.r.Intn(len(c))]
			dup := false
			for _, di := range g.byFile[g.curFile] {
				if di.def.DefName() == cand {
					dup = true
				}
			}
			if !dup {
				return cand
			}
		}
	}
	if g.o.DottedLocal && !g.o.ForGen && g.r.Chance(1, 8) {
		n = n + "." + g.name("x")
	}
	return n
}

// ename: enum names are never dotted but may be reused across files.
func (g *semGen) ename() string {
	save := g.o.DottedLocal
	g.o.DottedLocal = false
	n := g.tname("En")
	g.o.DottedLocal = save
	return n
}

func (g *semGen) goName() string { return g.name("Go") }

func (g *semGen) doc() *Doc {
	if g.r.Chance(1, 4) {
		t := g.name("doc ")
		return &Doc{Raw: "/** " + t + " */", Want: t}
	}
	return nil
}

func (g *semGen) include(from, to *File) bool {
	for _, h := range g.incl[from] {
		if h.Target == to {
			return true
		}
		if h.Target.ModuleName() == to.ModuleName() {
			return false // one include name per file
		}
	}
	rel := relPath(path.Dir(from.Path), to.Path)
	if g.r.Bool() && !strings.HasPrefix(rel, "../") {
		rel = "./" + rel
	}
	h := &Header{Kind: "include", Path: rel, Target: to}
	from.Headers = append(from.Headers, h)
	g.incl[from] = append(g.incl[from], h)
	return true
}

func relPath(fromDir, to string) string {
	fd := strings.Split(fromDir, "/")
	td := strings.Split(to, "/")
	i := 0
	for i < len(fd) && i < len(td)-1 && fd[i] == td[i] {
		i++
	}
	var parts []string
	for k := i; k < len(fd); k++ {
		parts = append(parts, "..")
	}
	parts = append(parts, td[i:]...)
	return strings.Join(parts, "/")
}

// declare registers a definition. rank orders definitions so that everything
// "earlier" may be referenced without creating cycles: definitions of files
// with a higher index (the included side of the acyclic include skeleton) come
// first, then declaration order within a file.
func (g *semGen) declare(f *File, d Def) {
	fi := 0
	for k, pf := range g.p.Files {
		if pf == f {
			fi = k
		}
	}
	g.seq++
	di := &defInfo{file: f, def: d, rank: (len(g.p.Files)-1-fi)*100000 + g.seq}
	g.all = append(g.all, di)
	g.byFile[f] = append(g.byFile[f], di)
	g.rank[d] = di.rank
	f.Defs = append(f.Defs, d)
}

// visible returns the definitions a file can name, with the qualifier.
func (g *semGen) visible(f *File) []struct {
	di   *defInfo
	qual string
} {
	var out []struct {
		di   *defInfo
		qual string
	}
	for _, di := range g.byFile[f] {
		out = append(out, struct {
			di   *defInfo
			qual string
		}{di, ""})
	}
	for _, h := range g.incl[f] {
		if h.Target == f {
			continue
		}
		q := h.Target.ModuleName() + "."
		for _, di := range g.byFile[h.Target] {
			out = append(out, struct {
				di   *defInfo
				qual string
			}{di, q})
		}
	}
	return out
}

// Root follows typedefs to the ultimate non-typedef type expression.
func (t *TypeRef) Root() *TypeRef {
	for k := 0; k < 1000 && t != nil && t.Kind == TNamed; k++ {
		td, ok := t.Target.(*Typedef)
		if !ok {
			return t
		}
		t = td.Type
	}
	return t
}

// typeFor draws a type expression. Typedefs of rank >= maxTypedefRank are not
// referenced (keeps typedef chains acyclic); structRankLimit is handled by the
// caller for fields.
func (g *semGen) typeFor(f *File, maxTypedefRank int, depth int, key bool) *TypeRef {
	r := g.r
	k := r.Intn(10)
	if depth <= 0 && k >= 7 {
		k = r.Intn(7)
	}
	switch {
	case k < 3:
		t := &TypeRef{Kind: TBase, Base: BaseKind(r.Range(1, 8))}
		if t.Base == BI8 && r.Chance(1, 4) {
			t.AsByte = true
		}
		return t
	case k < 7:
		var cands []struct {
			di   *defInfo
			qual string
		}
		for _, v := range g.visible(f) {
			switch d := v.di.def.(type) {
			case *Typedef:
				if v.di.rank < maxTypedefRank && d.Type != nil {
					cands = append(cands, v)
				}
			case *Enum, *Struct:
				cands = append(cands, v)
			}
		}
		if len(cands) == 0 {
			return &TypeRef{Kind: TBase, Base: BaseKind(r.Range(1, 8))}
		}
		c := cands[r.Intn(len(cands))]
		return &TypeRef{Kind: TNamed, Name: c.qual + c.di.def.DefName(), Target: c.di.def, TFile: c.di.file}
	case k == 7:
		return &TypeRef{Kind: TMap, Key: g.typeFor(f, maxTypedefRank, depth-1, true), Elem: g.typeFor(f, maxTypedefRank, depth-1, false)}
	case k == 8:
		return &TypeRef{Kind: TList, Elem: g.typeFor(f, maxTypedefRank, depth-1, false)}
	default:
		t := &TypeRef{Kind: TSet, Elem: g.typeFor(f, maxTypedefRank, depth-1, true)}
		if g.o.GoAnns && r.Chance(1, 4) {
			t.Ann = []Ann{{Name: "go.type", Value: "slice", HasValue: true}}
		}
		return t
	}
}

var zooKinds = []string{"bool", "i8", "i16", "i32", "i64", "double", "string", "binary", "enum", "struct", "list", "listbinary", "set", "setslice", "setunhash", "map", "mapunhash", "typedef", "typedef"}

// zooType is the type of a typedef reserved for one root kind.
func (g *semGen) zooType(di *defInfo, kind string) *TypeRef {
	r := g.r
	base := func(b BaseKind) *TypeRef { return &TypeRef{Kind: TBase, Base: b} }
	named := func(want func(Def) bool) *TypeRef {
		var cands []*TypeRef
		for _, v := range g.visible(di.file) {
			if td, ok := v.di.def.(*Typedef); ok && (v.di.rank >= di.rank || td.Type == nil) {
				continue
			}
			if want(v.di.def) {
				cands = append(cands, &TypeRef{Kind: TNamed, Name: v.qual + v.di.def.DefName(), Target: v.di.def, TFile: v.di.file})
			}
		}
		if len(cands) == 0 {
			return nil
		}
		return cands[r.Intn(len(cands))]
	}
	isStruct := func(d Def) bool { _, ok := d.(*Struct); return ok }
	switch kind {
	case "bool":
		return base(BBool)
	case "i8":
		return base(BI8)
	case "i16":
		return base(BI16)
	case "i32":
		return base(BI32)
	case "i64":
		return base(BI64)
	case "double":
		return base(BDouble)
	case "string":
		return base(BString)
	case "binary":
		return base(BBinary)
	case "enum":
		if t := named(func(d Def) bool { _, ok := d.(*Enum); return ok }); t != nil {
			return t
		}
	case "struct":
		if t := named(isStruct); t != nil {
			return t
		}
	case "list":
		return &TypeRef{Kind: TList, Elem: g.typeFor(di.file, di.rank, 1, false)}
	case "listbinary":
		return &TypeRef{Kind: TList, Elem: base(BBinary)}
	case "set":
		return &TypeRef{Kind: TSet, Elem: base([]BaseKind{BI32, BString, BI64, BBool}[r.Intn(4)])}
	case "setslice":
		return &TypeRef{Kind: TSet, Elem: g.typeFor(di.file, di.rank, 1, true), Ann: []Ann{{Name: "go.type", Value: "slice", HasValue: true}}}
	case "setunhash":
		if t := named(isStruct); t != nil {
			return &TypeRef{Kind: TSet, Elem: t}
		}
		return &TypeRef{Kind: TSet, Elem: &TypeRef{Kind: TList, Elem: base(BI32)}}
	case "map":
		return &TypeRef{Kind: TMap, Key: base([]BaseKind{BI32, BString, BI8}[r.Intn(3)]), Elem: g.typeFor(di.file, di.rank, 1, false)}
	case "mapunhash":
		if t := named(isStruct); t != nil && r.Bool() {
			return &TypeRef{Kind: TMap, Key: t, Elem: g.typeFor(di.file, di.rank, 1, false)}
		}
		return &TypeRef{Kind: TMap, Key: &TypeRef{Kind: TSet, Elem: base(BString)}, Elem: base(BBinary)}
	case "typedef":
		if t := named(func(d Def) bool { _, ok := d.(*Typedef); return ok }); t != nil {
			return t
		}
	}
	return g.typeFor(di.file, di.rank, 2, false)
}

func (g *semGen) fillEnum(e *Enum) {
	r := g.r
	n := r.Range(1, 6)
	prev := int64(-1)
	used := map[int64]bool{}
	for i := 0; i < n; i++ {
		it := &EnumItem{Name: fmt.Sprintf("ITEM_%s%d", string(rune('A'+r.Intn(26))), i)}
		if r.Chance(1, 3) {
			it.Name = fmt.Sprintf("item%c%d", 'a'+rune(r.Intn(26)), i)
		}
		if r.Chance(2, 5) {
			it.Explicit = true
			var v int64
			switch r.Intn(4) {
			case 0:
				v = []int64{0, 1, -1, math.MaxInt32 - int64(n), math.MinInt32, 65536, -32768, 255}[r.Intn(8)]
			case 1:
				v = prev + int64(r.Range(1, 5))
			default:
				v = int64(r.Intn(2000)) - 500
			}
			if used[v] && g.o.off("enum-dup-values") {
				v = prev + 1
				for used[v] {
					v++
				}
			}
			it.Value = v
			it.Lit = strconv.FormatInt(v, 10)
			if v >= 0 && r.Chance(1, 5) {
				it.Lit = "0x" + strconv.FormatInt(v, 16)
			}
		} else {
			it.Value = prev + 1
			if used[it.Value] && g.o.off("enum-dup-values") {
				it.Explicit = true
				for used[it.Value] {
					it.Value++
				}
				it.Lit = strconv.FormatInt(it.Value, 10)
			}
		}
		if it.Value > math.MaxInt32 || it.Value < math.MinInt32 {
			it.Value = int64(i)
			it.Explicit = true
			it.Lit = strconv.Itoa(i)
		}
		prev = it.Value
		used[it.Value] = true
		if g.o.GoAnns && r.Chance(1, 8) {
			it.Ann = []Ann{{Name: "go.label", Value: g.name("lbl"), HasValue: true}}
		}
		it.Doc = g.doc()
		e.Items = append(e.Items, it)
	}
	e.Doc = g.doc()
}

// structLike returns the struct-like definition a type denotes directly
// (through typedefs, not through containers), or nil.
func structLike(t *TypeRef) *Struct {
	rt := t.Root()
	if rt != nil && rt.Kind == TNamed {
		if s, ok := rt.Target.(*Struct); ok {
			return s
		}
	}
	return nil
}

func (g *semGen) fillStruct(di *defInfo, s *Struct) {
	r := g.r
	n := r.Range(0, 6)
	if s.Kind == KUnion {
		n = r.Range(1, 4)
	}
	usedID := map[int64]bool{}
	nextID := int64(0)
	for i := 0; i < n; i++ {
		f := &Field{Name: g.name("fld")}
		if r.Chance(1, 4) {
			nextID += int64(r.Range(1, 40))
		} else {
			nextID++
		}
		if r.Chance(1, 12) {
			nextID = []int64{32767, 1000, 256, 128}[r.Intn(4)]
		}
		for usedID[nextID] || nextID > 32767 {
			nextID = int64(r.Range(1, 32000))
		}
		f.ID = nextID
		usedID[f.ID] = true
		f.IDLit = strconv.FormatInt(f.ID, 10)
		if r.Chance(1, 10) {
			f.IDLit = "0x" + strconv.FormatInt(f.ID, 16)
		}
		f.Type = g.typeFor(di.file, math.MaxInt32, 2, false)
		f.Req = ReqOptional
		if s.Kind != KUnion && r.Chance(2, 5) {
			f.Req = ReqRequired
		}
		if s.Kind == KUnion && r.Chance(1, 2) && !g.o.ForGen {
			f.Req = ReqUnspecified
		}
		if s.Kind == KUnion && g.o.ForGen && r.Bool() {
			f.Req = ReqUnspecified
		}
		// recursion must be escapable: a required field (or the first union
		// member) never leads to a struct-like type of the same or higher rank
		if sl := structLike(f.Type); sl != nil && g.rank[sl] >= di.rank {
			if s.Kind == KUnion && i == 0 {
				f.Type = &TypeRef{Kind: TBase, Base: BI32}
			} else if s.Kind != KUnion {
				f.Req = ReqOptional
			}
		}
		f.Doc = g.doc()
		if g.o.GoAnns {
			switch r.Intn(14) {
			case 0:
				f.Ann = append(f.Ann, Ann{Name: "go.name", Value: g.goName(), HasValue: true})
			case 1:
				f.Ann = append(f.Ann, Ann{Name: "go.label", Value: g.name("lbl"), HasValue: true})
			case 2:
				f.Ann = append(f.Ann, Ann{Name: "go.tag", Value: `json:"` + g.name("j") + `,omitempty"`, HasValue: true})
			}
		}
		if g.o.Redact {
			switch r.Intn(5) {
			case 0:
				f.Ann = append(f.Ann, Ann{Name: "go.redact"})
			case 1:
				f.Ann = append(f.Ann, Ann{Name: "go.nolog"})
			}
		}
		s.Fields = append(s.Fields, f)
	}
	s.Doc = g.doc()
}

// canHaveLiteral: the IDL has no literal for binary, anywhere inside.
func (g *semGen) canHaveLiteral(t *TypeRef) bool {
	return g.literalOK(t, map[*Struct]bool{})
}

func (g *semGen) literalOK(t *TypeRef, seen map[*Struct]bool) bool {
	rt := t.Root()
	switch rt.Kind {
	case TBase:
		return rt.Base != BBinary
	case TList, TSet:
		return true // can always be empty
	case TMap:
		return true
	case TNamed:
		switch d := rt.Target.(type) {
		case *Enum:
			return len(d.Items) > 0
		case *Struct:
			if seen[d] {
				return false
			}
			seen[d] = true
			defer delete(seen, d)
			if d.Kind == KUnion {
				for _, f := range d.Fields {
					if g.literalOK(f.Type, seen) {
						return true
					}
				}
				return false
			}
			for _, f := range d.Fields {
				if f.Req == ReqRequired && f.Default == nil && !g.literalOK(f.Type, seen) {
					return false
				}
			}
			return true
		}
	}
	return false
}

// litDepth: the least struct nesting a literal of type t needs (containers can
// be empty); 1<<20 when there is none on this path.
func (g *semGen) litDepth(t *TypeRef, seen map[*Struct]bool) int {
	rt := t.Root()
	if rt.Kind != TNamed {
		return 0
	}
	d, ok := rt.Target.(*Struct)
	if !ok {
		return 0
	}
	if seen[d] {
		return 1 << 20
	}
	seen[d] = true
	defer delete(seen, d)
	if d.Kind == KUnion {
		best := 1 << 20
		for _, f := range d.Fields {
			if !g.canHaveLiteral(f.Type) {
				continue
			}
			if x := g.litDepth(f.Type, seen); x < best {
				best = x
			}
		}
		return best + 1
	}
	worst := 0
	for _, f := range d.Fields {
		if f.Req == ReqRequired && f.Default == nil {
			if x := g.litDepth(f.Type, seen); x > worst {
				worst = x
			}
		}
	}
	return worst + 1
}

// elemOK: container elements of type t may be written in the value being drawn.
func (g *semGen) elemOK(t *TypeRef) bool {
	if !g.canHaveLiteral(t) || g.mentionsStructAtOrAbove(t, g.structLimit, 0) {
		return false
	}
	return g.structLimit == math.MaxInt32 || g.literalUnder(t, g.structLimit, map[*Struct]bool{})
}

// literalUnder: a literal of type t exists that mentions only structs ranked
// below limit (required fields and union members included, transitively).
func (g *semGen) literalUnder(t *TypeRef, limit int, seen map[*Struct]bool) bool {
	rt := t.Root()
	if rt.Kind != TNamed {
		return g.literalOK(t, map[*Struct]bool{})
	}
	d, ok := rt.Target.(*Struct)
	if !ok {
		return g.literalOK(t, map[*Struct]bool{})
	}
	if g.rank[d] >= limit || seen[d] {
		return false
	}
	seen[d] = true
	defer delete(seen, d)
	if d.Kind == KUnion {
		for _, f := range d.Fields {
			if g.literalUnder(f.Type, limit, seen) {
				return true
			}
		}
		return false
	}
	for _, f := range d.Fields {
		if f.Req == ReqRequired && f.Default == nil && !g.literalUnder(f.Type, limit, seen) {
			return false
		}
	}
	return true
}

// defaultOK rejects defaults that would make a struct's default value contain
// the struct itself (default cycles), and feature classes switched off.
func (g *semGen) defaultOK(di *defInfo, f *Field) bool {
	if sl := structLike(f.Type); sl != nil {
		if g.rank[sl] >= di.rank {
			return false
		}
	}
	// defaults whose value would embed a higher-ranked struct through a container
	if g.mentionsStructAtOrAbove(f.Type, di.rank, 0) {
		return false
	}
	// ... or through required fields / union members of the literal's struct
	if !g.literalUnder(f.Type, di.rank, map[*Struct]bool{}) {
		return false
	}
	if g.o.off("struct-literal-in-default-on-type-cycle") {
		// open finding KF-C07-1: a struct literal inside a default is cast while
		// its struct may still be half linked if that struct can reach the
		// owner of the default. Stay out of that class in the main stream.
		in := map[*Struct]bool{}
		structsIn(f.Type, in, 0)
		pure := false
		for s := range in { // (order-independent: any unsafe member decides)
			if g.reaches(s, di.def, map[Def]bool{}) {
				// The finding needs a field of the half-linked struct whose type
				// is still an unresolved name when the literal is cast. A struct
				// whose given-or-defaulted fields all have nameless types is
				// outside it.
				if _, direct := f.Type.Target.(*Struct); !cycleSafe(s) || f.Type.Kind != TNamed || !direct {
					return false
				}
				pure = true
			}
		}
		g.pureOnly = pure
		g.noStructRefs = true
	}
	if f.Type.Kind == TNamed {
		if _, ok := f.Type.Target.(*Typedef); ok {
			rt := f.Type.Root()
			if rt.Kind != TBase && !(rt.Kind == TNamed && isEnum(rt)) && g.o.off("default-on-typedef-of-struct-or-container") {
				return false
			}
		}
	}
	return true
}

// pureType: a type expression that names no definition.
func pureType(t *TypeRef) bool {
	if t == nil {
		return true
	}
	switch t.Kind {
	case TBase:
		return true
	case TNamed:
		return false
	case TMap:
		return pureType(t.Key) && pureType(t.Elem)
	}
	return pureType(t.Elem)
}

// cycleSafe: every field of s that a literal of s must give, or that is filled
// from a default when left out, has a pure type.
func cycleSafe(s *Struct) bool {
	if s.Kind == KUnion {
		for _, f := range s.Fields {
			// (binary is nameless but has no literal form)
			if pureType(f.Type) && !(f.Type.Kind == TBase && f.Type.Base == BBinary) {
				return true
			}
		}
		return false
	}
	for _, f := range s.Fields {
		if (f.Default != nil || f.Req == ReqRequired) && !pureType(f.Type) {
			return false
		}
	}
	return true
}

// reaches reports whether definition `from` can reach definition `to` through
// typedef targets, struct field types and container element types.
func (g *semGen) reaches(from, to Def, seen map[Def]bool) bool {
	if from == to {
		return true
	}
	if seen[from] {
		return false
	}
	seen[from] = true
	var walk func(t *TypeRef) bool
	walk = func(t *TypeRef) bool {
		if t == nil {
			return false
		}
		switch t.Kind {
		case TNamed:
			return t.Target != nil && g.reaches(t.Target, to, seen)
		case TMap:
			return walk(t.Key) || walk(t.Elem)
		case TList, TSet:
			return walk(t.Elem)
		}
		return false
	}
	switch d := from.(type) {
	case *Typedef:
		return walk(d.Type)
	case *Struct:
		for _, f := range d.Fields {
			if walk(f.Type) {
				return true
			}
		}
	}
	return false
}

// structsIn lists the struct-like definitions whose literals a value of type t
// may contain.
func structsIn(t *TypeRef, out map[*Struct]bool, depth int) {
	if t == nil || depth > 12 {
		return
	}
	rt := t.Root()
	if rt == nil {
		return
	}
	switch rt.Kind {
	case TMap:
		structsIn(rt.Key, out, depth+1)
		structsIn(rt.Elem, out, depth+1)
	case TList, TSet:
		structsIn(rt.Elem, out, depth+1)
	case TNamed:
		if s, ok := rt.Target.(*Struct); ok && !out[s] {
			out[s] = true
			for _, f := range s.Fields {
				structsIn(f.Type, out, depth+1)
			}
		}
	}
}

func isEnum(t *TypeRef) bool {
	_, ok := t.Target.(*Enum)
	return ok
}

func (g *semGen) mentionsStructAtOrAbove(t *TypeRef, rank, depth int) bool {
	if depth > 8 {
		return true
	}
	rt := t.Root()
	switch rt.Kind {
	case TList, TSet:
		return g.mentionsStructAtOrAbove(rt.Elem, rank, depth+1)
	case TMap:
		return g.mentionsStructAtOrAbove(rt.Key, rank, depth+1) || g.mentionsStructAtOrAbove(rt.Elem, rank, depth+1)
	case TNamed:
		if s, ok := rt.Target.(*Struct); ok {
			return g.rank[s] >= rank
		}
	}
	return false
}

func (g *semGen) constType(f *File, depth int) *TypeRef {
	for try := 0; try < 30; try++ {
		t := g.typeFor(f, math.MaxInt32, depth, false)
		if g.canHaveLiteral(t) && !g.deepBinary(t, 0) {
			return t
		}
	}
	return &TypeRef{Kind: TBase, Base: BI32}
}

// deepBinary: a type whose every value necessarily contains binary cannot be
// written; containers of binary can only be empty, which is fine. This reports
// struct types with required binary (handled by literalOK) - kept for clarity.
func (g *semGen) deepBinary(t *TypeRef, depth int) bool { return false }

func intRange(b BaseKind) (int64, int64) {
	switch b {
	case BI8:
		return math.MinInt8, math.MaxInt8
	case BI16:
		return math.MinInt16, math.MaxInt16
	case BI32:
		return math.MinInt32, math.MaxInt32
	}
	return math.MinInt64, math.MaxInt64
}

func intLit(r *core.Rand, v int64) string {
	if v >= 0 {
		switch r.Intn(6) {
		case 0:
			return "0x" + strconv.FormatInt(v, 16)
		case 1:
			return "+" + strconv.FormatInt(v, 10)
		}
	}
	return strconv.FormatInt(v, 10)
}

// constFor draws a constant expression valid for type t. Constants of rank >=
// maxConstRank are not referenced (acyclic).
func (g *semGen) constFor(f *File, t *TypeRef, maxConstRank int, depth int) *Const {
	if depth < -64 {
		panic("constFor: runaway recursion on " + TypeString(t))
	}
	r := g.r
	// reference to an existing constant of the very same declared type
	if r.Chance(1, 5) && (g.structLimit == math.MaxInt32 || !g.mentionsStructAtOrAbove(t, 0, 0)) {
		for _, v := range g.visible(f) {
			c, ok := v.di.def.(*Constant)
			if !ok || v.di.rank >= maxConstRank || c.Value == nil || c.Type == nil {
				continue
			}
			if g.noStructRefs {
				in := map[*Struct]bool{}
				structsIn(c.Type, in, 0)
				if len(in) > 0 {
					continue
				}
			}
			if sameType(c.Type, t) && r.Chance(1, 2) {
				return &Const{Kind: CRef, Ref: v.qual + c.Name, RefConst: c}
			}
		}
	}
	rt := t.Root()
	switch rt.Kind {
	case TBase:
		switch rt.Base {
		case BBool:
			switch r.Intn(4) {
			case 0:
				return &Const{Kind: CInt, Int: 1, Lit: "1"}
			case 1:
				return &Const{Kind: CInt, Int: 0, Lit: "0"}
			}
			return &Const{Kind: CBool, Bool: r.Bool()}
		case BI8, BI16, BI32, BI64:
			lo, hi := intRange(rt.Base)
			var v int64
			switch r.Intn(4) {
			case 0:
				v = []int64{lo, hi, 0, -1, 1, lo + 1, hi - 1}[r.Intn(7)]
			default:
				v = int64(r.Intn(200)) - 100
			}
			return &Const{Kind: CInt, Int: v, Lit: intLit(r, v)}
		case BDouble:
			if r.Chance(1, 3) {
				v := int64(r.Intn(2000)) - 1000
				return &Const{Kind: CInt, Int: v, Lit: intLit(r, v)}
			}
			lit, v := randDoubleLit(r)
			return &Const{Kind: CDouble, Dbl: v, Lit: lit}
		case BString:
			s := randString(r)
			return &Const{Kind: CString, Str: s, Single: r.Chance(1, 3)}
		}
	case TList:
		c := &Const{Kind: CList}
		n := 0
		if depth > 0 && g.elemOK(rt.Elem) {
			n = r.Intn(4)
		}
		for i := 0; i < n; i++ {
			c.Items = append(c.Items, g.constFor(f, rt.Elem, maxConstRank, depth-1))
		}
		return c
	case TSet:
		c := &Const{Kind: CList}
		n := 0
		if depth > 0 && g.elemOK(rt.Elem) {
			n = r.Intn(4)
		}
		seen := map[string]bool{}
		for i := 0; i < n; i++ {
			it := g.constFor(f, rt.Elem, maxConstRank, depth-1)
			k := LKey(Eval(it, rt.Elem))
			if seen[k] && !(g.o.DupLiterals && rt.Elem.Root().Kind == TBase) {
				continue
			}
			seen[k] = true
			c.Items = append(c.Items, it)
		}
		return c
	case TMap:
		c := &Const{Kind: CMap}
		n := 0
		if depth > 0 && g.elemOK(rt.Key) && g.elemOK(rt.Elem) {
			n = r.Intn(4)
		}
		seen := map[string]bool{}
		for i := 0; i < n; i++ {
			k := g.constFor(f, rt.Key, maxConstRank, depth-1)
			ks := LKey(Eval(k, rt.Key))
			if seen[ks] {
				continue
			}
			seen[ks] = true
			c.Items = append(c.Items, k, g.constFor(f, rt.Elem, maxConstRank, depth-1))
			c.ItemPos = append(c.ItemPos, Pos{})
		}
		return c
	case TNamed:
		switch d := rt.Target.(type) {
		case *Enum:
			it := d.Items[r.Intn(len(d.Items))]
			// an item can be named only where the enum's file is this file or
			// directly included by it; elsewhere the value is given by number
			nameable := rt.TFile == f
			for _, h := range g.incl[f] {
				if h.Target == rt.TFile {
					nameable = true
				}
			}
			if !nameable || r.Chance(1, 4) {
				// by number: binds to the first item with that value
				first := it
				for _, o := range d.Items {
					if o.Value == it.Value {
						first = o
						break
					}
				}
				return &Const{Kind: CInt, Int: it.Value, Lit: intLit(r, it.Value), RefItem: first, RefEnum: d}
			}
			qual := ""
			if rt.TFile != f {
				qual = rt.TFile.ModuleName() + "."
			}
			return &Const{Kind: CRef, Ref: qual + d.Name + "." + it.Name, RefItem: it, RefEnum: d}
		case *Struct:
			c := &Const{Kind: CMap}
			if d.Kind == KUnion {
				var ok []*Field
				for _, fl := range d.Fields {
					if g.pureOnly && !pureType(fl.Type) {
						continue
					}
					if g.canHaveLiteral(fl.Type) && (g.structLimit == math.MaxInt32 || g.literalUnder(fl.Type, g.structLimit, map[*Struct]bool{})) {
						ok = append(ok, fl)
					}
				}
				if len(ok) == 0 && g.pureOnly {
					// A union reached through a required field of a struct that does
					// not reach the owner (the ones that do were vetted by cycleSafe):
					// take any member.
					for _, fl := range d.Fields {
						if g.canHaveLiteral(fl.Type) && (g.structLimit == math.MaxInt32 || g.literalUnder(fl.Type, g.structLimit, map[*Struct]bool{})) {
							ok = append(ok, fl)
						}
					}
				}
				fl := ok[r.Intn(len(ok))]
				if depth <= 0 {
					// out of depth budget: take the member with the shallowest possible literal
					best := 1 << 30
					for _, cand := range ok {
						if d := g.litDepth(cand.Type, map[*Struct]bool{}); d < best {
							best, fl = d, cand
						}
					}
				}
				c.Items = append(c.Items, &Const{Kind: CString, Str: fl.Name}, g.constFor(f, fl.Type, maxConstRank, depth-1))
				c.ItemPos = append(c.ItemPos, Pos{})
				return c
			}
			for _, fl := range d.Fields {
				need := fl.Req == ReqRequired && fl.Default == nil
				if !g.canHaveLiteral(fl.Type) || (g.pureOnly && !need && !pureType(fl.Type)) {
					continue
				}
				if !need && (g.mentionsStructAtOrAbove(fl.Type, g.structLimit, 0) || (g.structLimit != math.MaxInt32 && !g.literalUnder(fl.Type, g.structLimit, map[*Struct]bool{}))) {
					continue
				}
				if need || (depth > 0 && r.Chance(1, 2)) {
					// recursion guard: optional self-similar fields are left out at depth 0
					if !need && structLike(fl.Type) != nil && depth <= 0 {
						continue
					}
					c.Items = append(c.Items, &Const{Kind: CString, Str: fl.Name, Single: r.Chance(1, 4)}, g.constFor(f, fl.Type, maxConstRank, depth-1))
					c.ItemPos = append(c.ItemPos, Pos{})
				}
			}
			return c
		}
	}
	panic(fmt.Sprintf("constFor: no literal for type %v", rt))
}

// sameType: structurally identical type expressions naming the same definitions.
func sameType(a, b *TypeRef) bool {
	if a.Kind != b.Kind {
		return false
	}
	switch a.Kind {
	case TBase:
		return a.Base == b.Base
	case TNamed:
		return a.Target == b.Target
	case TMap:
		return sameType(a.Key, b.Key) && sameType(a.Elem, b.Elem)
	default:
		return sameType(a.Elem, b.Elem)
	}
}

func (g *semGen) fillService(di *defInfo, s *Service) {
	r := g.r
	if g.chainSvc != nil && g.chainSvc[di.file] == s {
		// extend the chain service of the next file on the path
		for k, f := range g.p.Files {
			if f == di.file && k+1 < len(g.p.Files) {
				next := g.p.Files[k+1]
				s.Parent = next.ModuleName() + "." + g.chainSvc[next].Name
				s.ParentSvc = g.chainSvc[next]
			}
		}
		s.Funcs = append(s.Funcs, &Function{Name: g.name("fn")})
		return
	}
	// parent: a lower-ranked service (acyclic)
	if r.Chance(1, 2) || g.o.ServiceBias {
		vis := g.visible(di.file)
		// included files first when chains across files are wanted
		if g.o.ServiceBias {
			sort.SliceStable(vis, func(a, b int) bool { return vis[a].qual != "" && vis[b].qual == "" })
		}
		for _, v := range vis {
			if ps, ok := v.di.def.(*Service); ok && v.di.rank < di.rank && (r.Chance(1, 2) || g.o.ServiceBias && r.Chance(4, 5)) {
				s.Parent = v.qual + ps.Name
				s.ParentSvc = ps
				break
			}
		}
	}
	var excs []struct {
		di   *defInfo
		qual string
	}
	for _, v := range g.visible(di.file) {
		if st, ok := v.di.def.(*Struct); ok && st.Kind == KException {
			excs = append(excs, v)
		}
	}
	n := r.Range(0, 4)
	for i := 0; i < n; i++ {
		fn := &Function{Name: g.name("fn"), Doc: g.doc()}
		np := r.Range(0, 3)
		id := int64(0)
		for k := 0; k < np; k++ {
			id += int64(r.Range(1, 5))
			p := &Field{Name: g.name("arg"), ID: id, IDLit: strconv.FormatInt(id, 10), Type: g.typeFor(di.file, math.MaxInt32, 2, false)}
			p.Req = []Req{ReqUnspecified, ReqOptional, ReqRequired}[r.Intn(3)]
			if g.o.GoAnns && r.Chance(1, 8) && !g.o.off("go.name-on-params") {
				p.Ann = append(p.Ann, Ann{Name: "go.name", Value: g.goName(), HasValue: true})
			}
			if g.o.Redact && r.Chance(1, 4) {
				p.Ann = append(p.Ann, Ann{Name: "go.redact"})
			}
			fn.Params = append(fn.Params, p)
		}
		if r.Chance(1, 6) {
			fn.OneWay = true
		} else {
			if r.Chance(2, 3) {
				fn.Return = g.typeFor(di.file, math.MaxInt32, 2, false)
			}
			if len(excs) > 0 && r.Chance(1, 2) {
				ne := r.Range(1, 2)
				eid := int64(0)
				usedExc := map[Def]bool{}
				for k := 0; k < ne; k++ {
					eid += int64(r.Range(1, 3))
					e := excs[r.Intn(len(excs))]
					// the response helpers tell exceptions apart by type: one entry per type
					if usedExc[e.di.def] {
						continue
					}
					usedExc[e.di.def] = true
					fn.Throws = append(fn.Throws, &Field{Name: g.name("exc"), ID: eid, IDLit: strconv.FormatInt(eid, 10), Req: []Req{ReqUnspecified, ReqOptional}[r.Intn(2)],
						Type: &TypeRef{Kind: TNamed, Name: e.qual + e.di.def.DefName(), Target: e.di.def, TFile: e.di.file}})
				}
			}
		}
		s.Funcs = append(s.Funcs, fn)
	}
	s.Doc = g.doc()
}

// RenderAll renders every file.
func (p *Program) RenderAll(r *core.Rand, lay Layout) {
	for _, f := range p.Files {
		f.Render(r.Fork(), lay)
	}
}

// requalify re-expresses a type written in file `from` for use in file `to`
// (which includes `from` under the qualifier q); ok=false if it names
// something `to` cannot name.
func requalify(t *TypeRef, from *File, q string) (*TypeRef, bool) {
	switch t.Kind {
	case TBase:
		c := *t
		return &c, true
	case TNamed:
		if t.TFile != from || strings.Contains(t.Name, ".") {
			return nil, false
		}
		return &TypeRef{Kind: TNamed, Name: q + t.Name, Target: t.Target, TFile: t.TFile}, true
	case TMap:
		k, ok1 := requalify(t.Key, from, q)
		e, ok2 := requalify(t.Elem, from, q)
		return &TypeRef{Kind: TMap, Key: k, Elem: e}, ok1 && ok2
	default:
		e, ok := requalify(t.Elem, from, q)
		return &TypeRef{Kind: t.Kind, Elem: e, Ann: t.Ann}, ok
	}
}

// twins plants, in a file Y that includes X, a struct with the same NAME as a
// struct of X: the same fields plus extra defaulted ones. A constant of Y's
// struct is then defined by reference to a constant of X's struct, so the
// referenced value has to be re-cast to the local definition (a reference is
// only a shortcut when the two types are the same definition).
func (g *semGen) twins() {
	r := g.r
	for _, y := range g.p.Files {
		for _, h := range g.incl[y] {
			x := h.Target
			if x == y || !r.Chance(1, 3) {
				continue
			}
			q := x.ModuleName() + "."
			for _, di := range g.byFile[x] {
				sx, ok := di.def.(*Struct)
				if !ok || sx.Kind != KStruct || strings.Contains(sx.Name, ".") || !g.canHaveLiteral(&TypeRef{Kind: TNamed, Name: sx.Name, Target: sx, TFile: x}) {
					continue
				}
				clash := false
				for _, dy := range g.byFile[y] {
					if dy.def.DefName() == sx.Name {
						clash = true
					}
				}
				if clash {
					continue
				}
				sy := &Struct{Kind: KStruct, Name: sx.Name}
				good := true
				maxID := int64(0)
				for _, f := range sx.Fields {
					t, ok := requalify(f.Type, x, q)
					if !ok || f.Default != nil {
						good = false
						break
					}
					nf := *f
					nf.Type = t
					nf.Doc = nil
					sy.Fields = append(sy.Fields, &nf)
					if f.ID > maxID {
						maxID = f.ID
					}
				}
				if !good || maxID > 32000 {
					continue
				}
				for k := r.Range(1, 2); k > 0; k-- {
					maxID++
					v := int64(r.Intn(100))
					sy.Fields = append(sy.Fields, &Field{ID: maxID, IDLit: strconv.FormatInt(maxID, 10), Req: ReqOptional, Name: g.name("extra"),
						Type: &TypeRef{Kind: TBase, Base: BI32}, Default: &Const{Kind: CInt, Int: v, Lit: strconv.FormatInt(v, 10)}})
				}
				g.declare(y, sy)
				px := &Constant{Name: g.name("kc"), Type: &TypeRef{Kind: TNamed, Name: sx.Name, Target: sx, TFile: x}}
				g.declare(x, px)
				px.Value = g.constFor(x, px.Type, g.rank[px], 2)
				qy := &Constant{Name: g.name("kc"), Type: &TypeRef{Kind: TNamed, Name: sy.Name, Target: sy, TFile: y},
					Value: &Const{Kind: CRef, Ref: q + px.Name, RefConst: px}}
				g.declare(y, qy)
				break
			}
		}
	}
}

// mutualDefaults plants two structs that refer to each other where one has a
// struct-literal default of the other, and the other has defaulted fields of
// nameless types written in a form that differs from their linked form
// (integer literals for double and bool). Whichever of the two is linked first,
// the result must be the same.
func (g *semGen) mutualDefaults() {
	r := g.r
	f := g.p.Files[r.Intn(len(g.p.Files))]
	g.curFile = f
	b := &Struct{Kind: KStruct, Name: g.name("St")}
	a := &Struct{Kind: KStruct, Name: g.name("St")}
	g.declare(f, b)
	g.declare(f, a)
	ref := func(s *Struct) *TypeRef { return &TypeRef{Kind: TNamed, Name: s.Name, Target: s, TFile: f} }
	id := int64(0)
	fld := func(name string, t *TypeRef, def *Const) *Field {
		id += int64(r.Range(1, 3))
		return &Field{ID: id, IDLit: strconv.FormatInt(id, 10), Req: ReqOptional, Name: g.name(name), Type: t, Default: def}
	}
	iv := int64(r.Intn(50))
	bv := int64(r.Intn(2))
	fields := []*Field{
		fld("back", ref(a), nil),
		fld("dbl", &TypeRef{Kind: TBase, Base: BDouble}, &Const{Kind: CInt, Int: iv, Lit: strconv.FormatInt(iv, 10)}),
		fld("flag", &TypeRef{Kind: TBase, Base: BBool}, &Const{Kind: CInt, Int: bv, Lit: strconv.FormatInt(bv, 10)}),
	}
	if r.Bool() {
		fields[0], fields[1] = fields[1], fields[0] // the back-reference is not always first
		fields[0].ID, fields[1].ID = fields[1].ID, fields[0].ID
		fields[0].IDLit, fields[1].IDLit = fields[1].IDLit, fields[0].IDLit
	}
	b.Fields = fields
	id = 0
	lit := &Const{Kind: CMap}
	if r.Chance(1, 3) {
		lit.Items = append(lit.Items, &Const{Kind: CString, Str: fields[2].Name}, &Const{Kind: CBool, Bool: r.Bool()})
		lit.ItemPos = append(lit.ItemPos, Pos{})
	}
	a.Fields = []*Field{fld("peer", ref(b), lit), fld("n", &TypeRef{Kind: TBase, Base: BI32}, nil)}
}

// typedefKnot plants a chain of three or four typedefs that ends in a struct
// whose field refers back to the head of the chain, and (where constants are
// generated) a constant of the head type: whichever definition is linked first,
// every typedef of the chain must report the struct as its root.
func (g *semGen) typedefKnot() {
	r := g.r
	f := g.p.Files[r.Intn(len(g.p.Files))]
	g.curFile = f
	s := &Struct{Kind: KStruct, Name: g.name("St")}
	g.declare(f, s)
	n := r.Range(3, 4)
	prev := &TypeRef{Kind: TNamed, Name: s.Name, Target: s, TFile: f}
	var head *Typedef
	for k := 0; k < n; k++ {
		td := &Typedef{Name: g.name("Td"), Type: prev}
		g.declare(f, td)
		prev = &TypeRef{Kind: TNamed, Name: td.Name, Target: td, TFile: f}
		head = td
	}
	s.Fields = []*Field{
		{ID: 1, IDLit: "1", Req: ReqOptional, Name: g.name("back"), Type: &TypeRef{Kind: TNamed, Name: head.Name, Target: head, TFile: f}},
		{ID: 2, IDLit: "2", Req: ReqOptional, Name: g.name("n"), Type: &TypeRef{Kind: TBase, Base: BI32}},
	}
	if g.o.Constants {
		v := int64(r.Intn(90))
		k := &Constant{Name: g.name("kc"), Type: &TypeRef{Kind: TNamed, Name: head.Name, Target: head, TFile: f},
			Value: &Const{Kind: CMap, Items: []*Const{{Kind: CString, Str: s.Fields[1].Name}, {Kind: CInt, Int: v, Lit: strconv.FormatInt(v, 10)}}, ItemPos: []Pos{{}}}}
		g.declare(f, k)
	}
}

// constRefs adds constants defined as a plain reference to another constant
// of the same type, local or included.
func (g *semGen) constRefs() {
	r := g.r
	for _, y := range g.p.Files {
		if !r.Chance(1, 2) {
			continue
		}
		vis := g.visible(y)
		for _, v := range vis {
			c, ok := v.di.def.(*Constant)
			if !ok || c.Value == nil || c.Type == nil {
				continue
			}
			// references to constants of primitive types are emitted as Go
			// identifiers (the rest is inlined): prefer them
			if c.Type.Root().Kind == TBase {
				if !r.Chance(2, 3) {
					continue
				}
			} else if !r.Chance(1, 5) {
				continue
			}
			t := c.Type
			if v.qual != "" {
				var ok bool
				if t, ok = requalify(c.Type, v.di.file, v.qual); !ok {
					continue
				}
			}
			g.declare(y, &Constant{Name: g.name("kr"), Type: t, Value: &Const{Kind: CRef, Ref: v.qual + c.Name, RefConst: c}})
			break
		}
	}
}

// FixNames rewrites every reference (type names, constant references, enum
// item references, service parents) from the definitions they are bound to,
// after definitions, fields or files have been renamed.
func (p *Program) FixNames() {
	fileOf := map[Def]*File{}
	for _, f := range p.Files {
		for _, d := range f.Defs {
			fileOf[d] = f
		}
	}
	for _, f := range p.Files {
		// include paths
		for _, h := range f.Headers {
			if h.Kind == "include" && h.Target != nil {
				rel := relPath(path.Dir(f.Path), h.Target.Path)
				if strings.HasPrefix(h.Path, "./") && !strings.HasPrefix(rel, "../") {
					rel = "./" + rel
				}
				h.Path = rel
			}
		}
		qual := func(tf *File) string {
			if tf == nil || tf == f {
				return ""
			}
			return tf.ModuleName() + "."
		}
		var fixT func(t *TypeRef)
		fixT = func(t *TypeRef) {
			if t == nil {
				return
			}
			if t.Kind == TNamed && t.Target != nil {
				t.TFile = fileOf[t.Target]
				t.Name = qual(t.TFile) + t.Target.DefName()
			}
			fixT(t.Key)
			fixT(t.Elem)
		}
		var fixC func(c *Const)
		fixC = func(c *Const) {
			if c == nil {
				return
			}
			if c.Kind == CRef {
				switch {
				case c.RefConst != nil:
					c.Ref = qual(fileOf[c.RefConst]) + c.RefConst.Name
				case c.RefItem != nil && c.RefEnum != nil:
					c.Ref = qual(fileOf[c.RefEnum]) + c.RefEnum.Name + "." + c.RefItem.Name
				}
			}
			for _, it := range c.Items {
				fixC(it)
			}
		}
		fixF := func(fs []*Field) {
			for _, fl := range fs {
				fixT(fl.Type)
				fixC(fl.Default)
			}
		}
		for _, d := range f.Defs {
			switch d := d.(type) {
			case *Typedef:
				fixT(d.Type)
			case *Struct:
				fixF(d.Fields)
			case *Constant:
				fixT(d.Type)
				fixC(d.Value)
			case *Service:
				if d.ParentSvc != nil {
					d.Parent = qual(fileOf[d.ParentSvc]) + d.ParentSvc.Name
				}
				for _, fn := range d.Funcs {
					fixT(fn.Return)
					fixF(fn.Params)
					fixF(fn.Throws)
				}
			}
		}
	}
}

// struct-literal keys name fields: renaming a field must rename those keys.
func (p *Program) renameFieldKeys(s *Struct, old, nw string) {
	var fixC func(c *Const, t *TypeRef)
	fixC = func(c *Const, t *TypeRef) {
		if c == nil || t == nil {
			return
		}
		if c.Kind == CRef {
			return
		}
		rt := t.Root()
		if rt == nil {
			return
		}
		switch rt.Kind {
		case TList, TSet:
			for _, it := range c.Items {
				fixC(it, rt.Elem)
			}
		case TMap:
			for i := 0; i+1 < len(c.Items); i += 2 {
				fixC(c.Items[i], rt.Key)
				fixC(c.Items[i+1], rt.Elem)
			}
		case TNamed:
			if st, ok := rt.Target.(*Struct); ok && c.Kind == CMap {
				for i := 0; i+1 < len(c.Items); i += 2 {
					if st == s && c.Items[i].Str == old {
						c.Items[i].Str = nw
					}
					for _, fl := range st.Fields {
						if fl.Name == c.Items[i].Str || (st == s && fl.Name == old && c.Items[i].Str == nw) {
							fixC(c.Items[i+1], fl.Type)
						}
					}
				}
			}
		}
	}
	for _, f := range p.Files {
		for _, d := range f.Defs {
			switch d := d.(type) {
			case *Constant:
				fixC(d.Value, d.Type)
			case *Struct:
				for _, fl := range d.Fields {
					fixC(fl.Default, fl.Type)
				}
			}
		}
	}
}

// HostileNames are identifiers that are legal Thrift but stress the mapping to
// Go: keywords, predeclared names, initialisms, SCREAMING_CASE, names of
// generated methods and helpers.
var HostileNames = []string{"type", "func", "range", "select", "chan", "go", "defer", "map_", "interface_", "var_x", "string_", "error", "nil_", "len", "init", "main", "iota", "true_", "int", "float64", "byte_", "rune",
	"id", "ID", "Id", "url", "URL", "http_api", "userId", "user_id", "USER_ID", "HTTPServer", "xmlHttpRequest", "uuid", "UUID", "Uuid",
	"ToWire", "FromWire", "String", "Equals", "Encode", "Decode", "Error", "ErrorName", "Ptr", "MarshalLogObject", "MarshalText", "UnmarshalText", "MarshalJSON", "UnmarshalJSON",
	"GetValue", "IsSetValue", "Value", "value", "get_value", "is_set_value", "Values", "E_Values", "Default_S", "Default", "Helper", "Args", "Result", "ThriftModule",
	"A_B", "a_b", "AB", "a__b", "_a", "a_", "a1", "A1_", "x", "X", "v", "w", "sw", "sr", "err", "fmt", "wire", "stream", "errors", "strings", "zapcore", "ptr", "math", "base64", "bytes", "json", "strconv", "thriftreflect", "multierr"}

// MakeHostile renames a random subset of definitions, fields, enum items,
// functions, parameters and files to hostile names (keeping Thrift-level
// uniqueness), so that only the Go mapping is under stress.
func MakeHostile(p *Program, r *core.Rand) []string {
	var log []string
	pick := func() string { return HostileNames[r.Intn(len(HostileNames))] }
	sameNamed(p, r, &log)
	hostileFiles(p, r, &log)
	dupLiterals(p, r, &log)
	twinned := map[string]int{}
	referenced := map[*Constant]bool{}
	var refs func(c *Const)
	refs = func(c *Const) {
		if c == nil {
			return
		}
		if c.RefConst != nil {
			referenced[c.RefConst] = true
		}
		for _, it := range c.Items {
			refs(it)
		}
	}
	for _, f := range p.Files {
		for _, d := range f.Defs {
			switch d := d.(type) {
			case *Struct:
				twinned[d.DefName()]++
				for _, fl := range d.Fields {
					refs(fl.Default)
				}
			case *Constant:
				refs(d.Value)
			}
		}
	}
	for _, f := range p.Files {
		used := map[string]bool{}
		usedNorm := map[string]bool{}
		for _, d := range f.Defs {
			used[d.DefName()] = true
			usedNorm[normKey(d.DefName())] = true
		}
		for _, h := range f.Headers {
			if h.Target != nil {
				used[h.Target.ModuleName()] = true
			}
		}
		for _, d := range f.Defs {
			kd, isConst := d.(*Constant)
			// a referenced constant of a primitive type is emitted by name at the reference
			hot := isConst && referenced[kd] && kd.Type != nil && kd.Type.Root().Kind == TBase
			if !r.Chance(1, 3) && !(isConst && r.Chance(1, 3)) && !(hot && r.Chance(2, 3)) {
				continue
			}
			n := pick()
			if isConst && (hot || r.Chance(2, 3)) {
				n = capsWords[r.Intn(len(capsWords))]
			} else if r.Chance(1, 4) {
				n = relativeDefName(f, r)
			}
			if d.DefName() == sameName || n == "" || IsReserved(n) || used[n] {
				continue
			}
			if usedNorm[normKey(n)] && !r.Chance(1, 8) {
				continue // same Go name as a sibling: (rightly) refused, keep rare
			}
			used[n] = true
			usedNorm[normKey(n)] = true
			log = append(log, fmt.Sprintf("%s: %s -> %s", f.Path, d.DefName(), n))
			switch d := d.(type) {
			case *Typedef:
				d.Name = n
			case *Enum:
				d.Name = n
			case *Struct:
				d.Name = n
			case *Constant:
				d.Name = n
			case *Service:
				d.Name = n
			}
		}
		for _, d := range f.Defs {
			switch d := d.(type) {
			case *Struct:
				fu := map[string]bool{}
				fn := map[string]bool{}
				for _, fl := range d.Fields {
					fu[fl.Name] = true
					fn[normKey(fl.Name)] = true
				}
				if twinned[d.Name] > 1 && !r.Chance(1, 8) {
					continue // renaming fields of one of two same-named structs breaks the cast between them
				}
				for _, fl := range d.Fields {
					n := pick()
					for k := 0; k < 3 && methodNames[n] && !r.Chance(1, 12); k++ {
						// names of generated methods are (rightly) refused as field names: keep them rare
						n = pick()
					}
					if r.Chance(1, 6) {
						n = relativeFieldName(d, fl, r)
					}
					if r.Chance(1, 3) && n != "" && !IsReserved(n) && !fu[n] && (!fn[normKey(n)] || r.Chance(1, 8)) {
						fu[n] = true
						fn[normKey(n)] = true
						log = append(log, fmt.Sprintf("%s: %s.%s -> %s", f.Path, d.Name, fl.Name, n))
						p.renameFieldKeys(d, fl.Name, n)
						fl.Name = n
					}
				}
			case *Enum:
				iu := map[string]bool{}
				for _, it := range d.Items {
					iu[strings.ToLower(it.Name)] = true
				}
				for _, it := range d.Items {
					if n := pick(); r.Chance(1, 3) && !IsReserved(n) && !iu[strings.ToLower(n)] {
						iu[strings.ToLower(n)] = true
						it.Name = n
					}
				}
			case *Service:
				fu := map[string]bool{}
				for _, fn := range d.Funcs {
					fu[strings.ToLower(fn.Name)] = true
				}
				for _, fn := range d.Funcs {
					if n := pick(); r.Chance(1, 3) && !IsReserved(n) && !fu[strings.ToLower(n)] {
						fu[strings.ToLower(n)] = true
						fn.Name = n
					}
					pu := map[string]bool{}
					for _, a := range append(append([]*Field{}, fn.Params...), fn.Throws...) {
						pu[a.Name] = true
					}
					for _, a := range append(append([]*Field{}, fn.Params...), fn.Throws...) {
						if n := pick(); r.Chance(1, 4) && !IsReserved(n) && !pu[n] {
							pu[n] = true
							a.Name = n
						}
					}
				}
			}
		}
	}
	p.FixNames()
	return log
}

var methodNames = map[string]bool{"ToWire": true, "FromWire": true, "String": true, "Equals": true, "Encode": true, "Decode": true, "Error": true, "ErrorName": true, "Ptr": true,
	"MarshalLogObject": true, "MarshalText": true, "UnmarshalText": true, "MarshalJSON": true, "UnmarshalJSON": true}

func normKey(n string) string { return strings.ToLower(strings.ReplaceAll(n, "_", "")) }

// capsWords: constant names as most IDLs write them.
var capsWords = []string{"LIMIT", "MAX", "MIN", "VERSION", "DEFAULTS", "FOO", "AB", "TIMEOUT", "E", "PI"}

const sameName = "Same"

func capFirst(s string) string {
	if s == "" {
		return s
	}
	return strings.ToUpper(s[:1]) + s[1:]
}

// relativeFieldName derives a name from a sibling field: the names of the
// accessors generated for that sibling, and near-misses of its Go name.
func relativeFieldName(d *Struct, self *Field, r *core.Rand) string {
	if len(d.Fields) < 2 {
		return ""
	}
	sib := d.Fields[r.Intn(len(d.Fields))]
	if sib == self {
		return ""
	}
	s := sib.Name
	switch r.Intn(16) % 10 {
	case 0:
		return "get_" + s
	case 1:
		return "Get" + capFirst(s)
	case 2:
		return "is_set_" + s
	case 3:
		return "IsSet" + capFirst(s)
	case 4:
		return s + "_"
	case 5:
		return "_" + s
	case 6:
		return strings.ToUpper(s)
	}
	return capFirst(s)
}

// relativeDefName derives a definition name from a sibling definition: the
// names of the helpers, item constants and argument structs generated for it.
func relativeDefName(f *File, r *core.Rand) string {
	if len(f.Defs) < 2 {
		return ""
	}
	switch d := f.Defs[r.Intn(len(f.Defs))].(type) {
	case *Enum:
		if len(d.Items) > 0 && r.Chance(1, 2) {
			it := d.Items[r.Intn(len(d.Items))]
			return d.Name + capFirst(it.Name)
		}
		return d.Name + "_Values"
	case *Struct:
		return []string{"Default_" + d.Name, d.Name + "_", "_" + d.Name, capFirst(d.Name)}[r.Intn(4)]
	case *Service:
		if len(d.Funcs) > 0 {
			fn := d.Funcs[r.Intn(len(d.Funcs))]
			return d.Name + "_" + fn.Name + []string{"_Args", "_Result", "_Helper"}[r.Intn(3)]
		}
		return d.Name + "Client"
	case *Typedef:
		return d.Name + "_"
	case *Constant:
		return strings.ToUpper(d.Name)
	}
	return ""
}

// sameNamed gives types of several files one name and uses them all as
// container elements in one file, so that the names derived for container
// helpers collide repeatedly.
func sameNamed(p *Program, r *core.Rand, log *[]string) {
	for _, z := range p.Files {
		if !r.Chance(1, 3) {
			continue
		}
		files := []*File{z}
		seen := map[*File]bool{z: true}
		for _, h := range z.Headers {
			if h.Target != nil && !seen[h.Target] {
				seen[h.Target] = true
				files = append(files, h.Target)
			}
		}
		if len(files) < 3 {
			continue
		}
		var elems []*TypeRef
		for _, x := range files {
			var cand Def
			taken := false
			for _, d := range x.Defs {
				if d.DefName() == sameName {
					taken = true
					switch d.(type) {
					case *Struct, *Enum:
						cand = d
					}
				}
			}
			if !taken {
				for _, d := range x.Defs {
					switch dd := d.(type) {
					case *Struct:
						if dd.Kind == KStruct && !strings.Contains(dd.Name, ".") {
							cand = d
						}
					case *Enum:
						if !strings.Contains(dd.Name, ".") {
							cand = d
						}
					}
				}
				switch dd := cand.(type) {
				case *Struct:
					dd.Name = sameName
				case *Enum:
					dd.Name = sameName
				}
			}
			if cand != nil {
				elems = append(elems, &TypeRef{Kind: TNamed, Name: sameName, Target: cand, TFile: x})
			}
		}
		if len(elems) < 3 {
			continue
		}
		taken := false
		for _, d := range z.Defs {
			if d.DefName() == "SameHolder" {
				taken = true
			}
		}
		if taken {
			continue
		}
		h := &Struct{Kind: KStruct, Name: "SameHolder"}
		for i, e := range elems {
			id := int64(i + 1)
			h.Fields = append(h.Fields, &Field{ID: id, IDLit: strconv.FormatInt(id, 10), Req: ReqOptional, Name: fmt.Sprintf("same%d", i), Type: &TypeRef{Kind: TList, Elem: e}})
		}
		z.Defs = append(z.Defs, h)
		*log = append(*log, fmt.Sprintf("%s: %d types named %s used as list elements", z.Path, len(elems), sameName))
	}
}

// hostileFiles renames files to base names that are fine for Thrift but are
// Go keywords, "main", or not identifiers (root file only: nobody can name it).
func hostileFiles(p *Program, r *core.Rand, log *[]string) {
	names := []string{"range", "func", "type", "select", "go", "chan", "var", "defer", "main", "init", "fallthrough", "goto"}
	for k, f := range p.Files {
		if !r.Chance(1, 10) {
			continue
		}
		n := names[r.Intn(len(names))]
		if k == 0 && r.Bool() {
			n = []string{"9lives", "2fa", "_"}[r.Intn(3)]
		}
		if IsReserved(n) {
			continue
		}
		np := path.Dir(f.Path) + "/" + n + ".thrift"
		clash := false
		for _, o := range p.Files {
			if o.Path == np {
				clash = true
			}
			// an includer of f must not already include another file of that name
			incl, other := false, false
			for _, h := range o.Headers {
				if h.Target == f {
					incl = true
				} else if h.Target != nil && h.Target.ModuleName() == n {
					other = true
				}
			}
			if incl && other {
				clash = true
			}
			for _, d := range o.Defs {
				if incl && d.DefName() == n {
					clash = true
				}
			}
		}
		if clash {
			continue
		}
		*log = append(*log, fmt.Sprintf("%s -> %s", f.Path, np))
		f.Path = np
	}
}

// dupLiterals repeats an item of a set literal or a key of a map literal.
func dupLiterals(p *Program, r *core.Rand, log *[]string) {
	var visit func(c *Const, t *TypeRef) bool
	visit = func(c *Const, t *TypeRef) bool {
		if c == nil || t == nil {
			return false
		}
		rt := t.Root()
		switch {
		case rt.Kind == TSet && c.Kind == CList && len(c.Items) > 0 && rt.Elem.Root().Kind == TBase && r.Chance(1, 2):
			c.Items = append(c.Items, c.Items[r.Intn(len(c.Items))])
			return true
		case rt.Kind == TMap && c.Kind == CMap && len(c.Items) >= 2 && rt.Key.Root().Kind == TBase && r.Chance(1, 2):
			k := 2 * r.Intn(len(c.Items)/2)
			c.Items = append(c.Items, c.Items[k], c.Items[k+1])
			c.ItemPos = append(c.ItemPos, Pos{})
			return true
		case (rt.Kind == TList || rt.Kind == TSet) && c.Kind == CList:
			for _, it := range c.Items {
				if visit(it, rt.Elem) {
					return true
				}
			}
		}
		return false
	}
	for _, f := range p.Files {
		for _, d := range f.Defs {
			if k, ok := d.(*Constant); ok && r.Chance(1, 6) && visit(k.Value, k.Type) {
				*log = append(*log, fmt.Sprintf("%s: constant %s repeats a set item / map key", f.Path, k.Name))
			}
		}
	}
}
