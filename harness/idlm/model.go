// Package idlm is an independent model of Thrift IDL program sets: its own
// AST, from which source text is rendered (print.go), so that what the real
// parser/compiler must answer is known by construction. No thriftrw imports.
package idlm

import (
	"fmt"
	"strings"
)

type Pos struct{ Line, Col int }

type Ann struct {
	Name     string
	Value    string
	HasValue bool
	Pos      Pos
}

type BaseKind int

const (
	BNone BaseKind = iota
	BBool
	BI8
	BI16
	BI32
	BI64
	BDouble
	BString
	BBinary
)

var BaseNames = map[BaseKind]string{BBool: "bool", BI8: "i8", BI16: "i16", BI32: "i32", BI64: "i64", BDouble: "double", BString: "string", BBinary: "binary"}

type TypeKind int

const (
	TBase TypeKind = iota
	TMap
	TList
	TSet
	TNamed
)

// TypeRef is a type expression as written.
type TypeRef struct {
	Kind   TypeKind
	Base   BaseKind
	AsByte bool     // written "byte" instead of "i8"
	Key    *TypeRef // map
	Elem   *TypeRef // map value / list / set element
	Name   string   // TNamed: as written ("Foo" or "inc.Foo")
	Ann    []Ann
	Pos    Pos

	// resolution (model's answer)
	Target Def
	TFile  *File
}

type Def interface {
	DefName() string
	DefPos() Pos
}

type Header struct {
	Kind  string // include, cpp_include, namespace
	Path  string // include / cpp_include path as written
	As    string // include <As> "path" (rejected by the compiler, accepted by the parser)
	Scope string // namespace scope
	Name  string // namespace name
	Pos   Pos

	Target *File // include target
}

type Typedef struct {
	Name string
	Zoo  string // generator: the root kind this typedef was reserved for ("" = free choice)
	Type *TypeRef
	Ann  []Ann
	Doc  *Doc
	Pos  Pos
}

type EnumItem struct {
	Name     string
	Explicit bool
	Lit      string // literal as rendered when explicit
	Value    int64  // the number the source denotes (explicit, or previous+1)
	Ann      []Ann
	Doc      *Doc
	Pos      Pos
}

type Enum struct {
	Name  string
	Items []*EnumItem
	Ann   []Ann
	Doc   *Doc
	Pos   Pos
}

type StructKind int

const (
	KStruct StructKind = iota
	KUnion
	KException
)

var StructKindNames = []string{"struct", "union", "exception"}

type Req int

const (
	ReqUnspecified Req = iota
	ReqRequired
	ReqOptional
)

type Field struct {
	ID      int64
	IDLit   string
	IDUnset bool
	Req     Req
	Type    *TypeRef
	Name    string
	Default *Const
	Ann     []Ann
	Doc     *Doc
	Pos     Pos
}

type Struct struct {
	Kind   StructKind
	Name   string
	Fields []*Field
	Ann    []Ann
	Doc    *Doc
	Pos    Pos
}

type ConstKind int

const (
	CInt ConstKind = iota
	CDouble
	CBool
	CString
	CRef
	CList
	CMap
)

// Const is a constant value expression as written.
type Const struct {
	Kind    ConstKind
	Int     int64
	Lit     string // rendered literal for ints and doubles
	Dbl     float64
	Bool    bool
	Str     string
	Single  bool // string rendered with single quotes
	Ref     string
	Items   []*Const // list items; map: k0,v0,k1,v1
	ItemPos []Pos    // map item positions
	Pos     Pos
	// AfterEq is the position of the "=" or ":" token when this value
	// directly follows one (constant definitions, field defaults, map values).
	AfterEq *Pos

	// resolution
	RefConst *Constant
	RefItem  *EnumItem
	RefEnum  *Enum
}

type Constant struct {
	Name  string
	Type  *TypeRef
	Value *Const
	Doc   *Doc
	Pos   Pos
}

type Function struct {
	Name      string
	OneWay    bool
	Return    *TypeRef // nil = void
	Params    []*Field
	Throws    []*Field
	HasThrows bool // "throws ()" written even if empty
	Ann       []Ann
	Doc       *Doc
	Pos       Pos
}

type Service struct {
	Name       string
	Parent     string // as written
	ParentPos  Pos
	ExtendsPos Pos // position of the "extends" keyword
	ParentSvc  *Service
	Funcs      []*Function
	Ann        []Ann
	Doc        *Doc
	Pos        Pos
}

// Doc is a docstring with the text the parser is expected to report.
type Doc struct {
	Raw  string // full comment text "/** ... */"
	Want string
}

func (d *Typedef) DefName() string  { return d.Name }
func (d *Enum) DefName() string     { return d.Name }
func (d *Struct) DefName() string   { return d.Name }
func (d *Constant) DefName() string { return d.Name }
func (d *Service) DefName() string  { return d.Name }
func (d *Typedef) DefPos() Pos      { return d.Pos }
func (d *Enum) DefPos() Pos         { return d.Pos }
func (d *Struct) DefPos() Pos       { return d.Pos }
func (d *Constant) DefPos() Pos     { return d.Pos }
func (d *Service) DefPos() Pos      { return d.Pos }

// File is one .thrift document.
type File struct {
	Path    string // relative to the sandbox root, e.g. "idl/a/b.thrift"
	Headers []*Header
	Defs    []Def
	Text    string // rendered source
	Lines   int
}

func (f *File) ModuleName() string {
	b := f.Path
	if i := strings.LastIndex(b, "/"); i >= 0 {
		b = b[i+1:]
	}
	return strings.TrimSuffix(b, ".thrift")
}

// Program is a set of files; Files[0] is the entry point.
type Program struct {
	Files      []*File
	ThriftRoot string // directory containing all files, relative to the sandbox root
}

// ---- dump: a neutral tree both sides are converted to (C11) ---------------------

// Node is the neutral form of an AST node: kind, scalar attributes, position,
// children in source order.
type Node struct {
	Kind  string   `json:"k"`
	Attrs []string `json:"a,omitempty"`
	Line  int      `json:"l"`
	Col   int      `json:"c"`
	Kids  []*Node  `json:"n,omitempty"`
	// AltLine/AltCol: position of the "=" preceding a constant value (used
	// only to classify a known position defect, never to accept it silently)
	AltLine int `json:"-"`
	AltCol  int `json:"-"`
}

func (n *Node) String() string {
	return fmt.Sprintf("%s%v@%d:%d", n.Kind, n.Attrs, n.Line, n.Col)
}

// Diff returns a description of the first difference between two trees.
func Diff(want, got *Node, path string) string {
	if want == nil || got == nil {
		if want == got {
			return ""
		}
		return fmt.Sprintf("%s: want %v, got %v", path, want, got)
	}
	p := path + "/" + want.Kind
	if len(want.Attrs) > 0 {
		p += "(" + want.Attrs[0] + ")"
	}
	if want.Kind != got.Kind {
		return fmt.Sprintf("%s: node kind: want %s, got %s", path, want, got)
	}
	if len(want.Attrs) != len(got.Attrs) {
		return fmt.Sprintf("%s: attributes: want %q, got %q", p, want.Attrs, got.Attrs)
	}
	for i := range want.Attrs {
		if want.Attrs[i] != got.Attrs[i] {
			return fmt.Sprintf("%s: attribute %d: want %q, got %q", p, i, want.Attrs[i], got.Attrs[i])
		}
	}
	if want.Line != got.Line || want.Col != got.Col {
		return fmt.Sprintf("%s: position: source has it at %d:%d, parser reports %d:%d", p, want.Line, want.Col, got.Line, got.Col)
	}
	if len(want.Kids) != len(got.Kids) {
		return fmt.Sprintf("%s: %d children expected, got %d", p, len(want.Kids), len(got.Kids))
	}
	for i := range want.Kids {
		if d := Diff(want.Kids[i], got.Kids[i], fmt.Sprintf("%s[%d]", p, i)); d != "" {
			return d
		}
	}
	return ""
}

func annNodes(as []Ann) []*Node {
	var out []*Node
	for _, a := range as {
		// "(x)" and "(x = \"\")" are the same to the AST
		out = append(out, &Node{Kind: "Annotation", Attrs: []string{a.Name, a.Value}, Line: a.Pos.Line, Col: a.Pos.Col})
	}
	return out
}

func docAttr(d *Doc) string {
	if d == nil {
		return "doc:"
	}
	return "doc:" + d.Want
}

func (t *TypeRef) Node() *Node {
	if t == nil {
		return &Node{Kind: "Void"}
	}
	n := &Node{Line: t.Pos.Line, Col: t.Pos.Col}
	switch t.Kind {
	case TBase:
		n.Kind = "BaseType"
		n.Attrs = []string{BaseNames[t.Base]}
	case TMap:
		n.Kind = "MapType"
		n.Kids = append(n.Kids, t.Key.Node(), t.Elem.Node())
	case TList:
		n.Kind = "ListType"
		n.Kids = append(n.Kids, t.Elem.Node())
	case TSet:
		n.Kind = "SetType"
		n.Kids = append(n.Kids, t.Elem.Node())
	case TNamed:
		n.Kind = "TypeReference"
		n.Attrs = []string{t.Name}
	}
	n.Kids = append(n.Kids, annNodes(t.Ann)...)
	return n
}

func (c *Const) Node() *Node {
	n := &Node{Line: c.Pos.Line, Col: c.Pos.Col}
	if c.AfterEq != nil {
		n.AltLine, n.AltCol = c.AfterEq.Line, c.AfterEq.Col
	}
	switch c.Kind {
	case CInt:
		n.Kind = "ConstantInteger"
		n.Attrs = []string{fmt.Sprint(c.Int)}
	case CDouble:
		n.Kind = "ConstantDouble"
		n.Attrs = []string{fmt.Sprintf("%x", floatBits(c.Dbl))}
	case CBool:
		n.Kind = "ConstantBoolean"
		n.Attrs = []string{fmt.Sprint(c.Bool)}
	case CString:
		n.Kind = "ConstantString"
		n.Attrs = []string{c.Str}
	case CRef:
		n.Kind = "ConstantReference"
		n.Attrs = []string{c.Ref}
	case CList:
		n.Kind = "ConstantList"
		for _, it := range c.Items {
			n.Kids = append(n.Kids, it.Node())
		}
	case CMap:
		n.Kind = "ConstantMap"
		for i := 0; i+1 < len(c.Items); i += 2 {
			p := c.ItemPos[i/2]
			n.Kids = append(n.Kids, &Node{Kind: "ConstantMapItem", Line: p.Line, Col: p.Col, Kids: []*Node{c.Items[i].Node(), c.Items[i+1].Node()}})
		}
	}
	return n
}

func (f *Field) Node() *Node {
	id := fmt.Sprint(f.ID)
	if f.IDUnset {
		id = "unset"
	}
	n := &Node{Kind: "Field", Attrs: []string{f.Name, "id:" + id, []string{"unspecified", "required", "optional"}[f.Req], docAttr(f.Doc)}, Line: f.Pos.Line, Col: f.Pos.Col}
	n.Kids = append(n.Kids, f.Type.Node())
	if f.Default != nil {
		n.Kids = append(n.Kids, f.Default.Node())
	}
	n.Kids = append(n.Kids, annNodes(f.Ann)...)
	return n
}

// Node renders a file as the neutral tree.
func (f *File) Node() *Node {
	root := &Node{Kind: "Program"}
	for _, h := range f.Headers {
		n := &Node{Line: h.Pos.Line, Col: h.Pos.Col}
		switch h.Kind {
		case "include":
			n.Kind = "Include"
			n.Attrs = []string{h.Path, "as:" + h.As}
		case "cpp_include":
			n.Kind = "CppInclude"
			n.Attrs = []string{h.Path}
		case "namespace":
			n.Kind = "Namespace"
			n.Attrs = []string{h.Scope, h.Name}
		}
		root.Kids = append(root.Kids, n)
	}
	for _, d := range f.Defs {
		p := d.DefPos()
		n := &Node{Line: p.Line, Col: p.Col}
		switch d := d.(type) {
		case *Constant:
			n.Kind = "Constant"
			n.Attrs = []string{d.Name, docAttr(d.Doc)}
			n.Kids = append(n.Kids, d.Type.Node(), d.Value.Node())
		case *Typedef:
			n.Kind = "Typedef"
			n.Attrs = []string{d.Name, docAttr(d.Doc)}
			n.Kids = append(n.Kids, d.Type.Node())
			n.Kids = append(n.Kids, annNodes(d.Ann)...)
		case *Enum:
			n.Kind = "Enum"
			n.Attrs = []string{d.Name, docAttr(d.Doc)}
			for _, it := range d.Items {
				v := "implicit"
				if it.Explicit {
					v = fmt.Sprint(it.Value)
				}
				in := &Node{Kind: "EnumItem", Attrs: []string{it.Name, v, docAttr(it.Doc)}, Line: it.Pos.Line, Col: it.Pos.Col}
				in.Kids = annNodes(it.Ann)
				n.Kids = append(n.Kids, in)
			}
			n.Kids = append(n.Kids, annNodes(d.Ann)...)
		case *Struct:
			n.Kind = "Struct"
			n.Attrs = []string{d.Name, StructKindNames[d.Kind], docAttr(d.Doc)}
			for _, f := range d.Fields {
				n.Kids = append(n.Kids, f.Node())
			}
			n.Kids = append(n.Kids, annNodes(d.Ann)...)
		case *Service:
			n.Kind = "Service"
			n.Attrs = []string{d.Name, docAttr(d.Doc)}
			for _, fn := range d.Funcs {
				fnn := &Node{Kind: "Function", Attrs: []string{fn.Name, fmt.Sprint("oneway:", fn.OneWay), docAttr(fn.Doc)}, Line: fn.Pos.Line, Col: fn.Pos.Col}
				for _, p := range fn.Params {
					fnn.Kids = append(fnn.Kids, p.Node())
				}
				fnn.Kids = append(fnn.Kids, &Node{Kind: "Returns", Kids: []*Node{fn.Return.Node()}})
				ex := &Node{Kind: "Throws"}
				for _, p := range fn.Throws {
					ex.Kids = append(ex.Kids, p.Node())
				}
				fnn.Kids = append(fnn.Kids, ex)
				fnn.Kids = append(fnn.Kids, annNodes(fn.Ann)...)
				n.Kids = append(n.Kids, fnn)
			}
			if d.Parent != "" {
				n.Kids = append(n.Kids, &Node{Kind: "ServiceReference", Attrs: []string{d.Parent}, Line: d.ParentPos.Line, Col: d.ParentPos.Col, AltLine: d.ExtendsPos.Line, AltCol: d.ExtendsPos.Col})
			}
			n.Kids = append(n.Kids, annNodes(d.Ann)...)
		}
		root.Kids = append(root.Kids, n)
	}
	return root
}
