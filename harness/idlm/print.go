package idlm

import (
	"fmt"
	"math"
	"strings"

	"verif/harness/core"
)

func floatBits(f float64) uint64 { return math.Float64bits(f) }

// Layout controls how much the printer randomises.
type Layout struct {
	Plain    bool // canonical one-definition-per-line layout, no comments
	Comments bool
	Newlines bool // newlines between arbitrary tokens
	Seps     bool // random optional separators
	CRLF     bool
}

var PlainLayout = Layout{Plain: true}
var WildLayout = Layout{Comments: true, Newlines: true, Seps: true}

// Printer renders model nodes to text and records, for every node, the
// 1-based line and column of its first token.
type Printer struct {
	sb    strings.Builder
	line  int
	col   int
	r     *core.Rand
	lay   Layout
	depth int
	last  byte
	noGap bool // the next token must follow directly (after a docstring)
	eqPos *Pos // position of an "=" just written, consumed by the next constant
}

func NewPrinter(r *core.Rand, lay Layout) *Printer {
	return &Printer{line: 1, col: 1, r: r, lay: lay}
}

func (p *Printer) raw(s string) {
	for i := 0; i < len(s); i++ {
		c := s[i]
		p.sb.WriteByte(c)
		if c == '\n' {
			p.line++
			p.col = 1
		} else {
			p.col++
		}
		p.last = c
	}
}

func isWord(c byte) bool {
	return c == '_' || c == '.' || c == '+' || c == '-' || (c >= '0' && c <= '9') || (c >= 'a' && c <= 'z') || (c >= 'A' && c <= 'Z')
}

var commentTexts = []string{"note", "x = 1; struct S {}", "TODO: 'quoted' \"text\"", "*", "a /* b", "#hash //slash", "ünïcode ✓", ""}

// gap writes inter-token filler. If the previous byte and the next token's
// first byte would fuse into one token, at least one separator is written.
func (p *Printer) gap(next byte) {
	need := isWord(p.last) && isWord(next)
	// "/" after "/" or "*" would start a comment; "*" after "/" likewise
	if (p.last == '/' && (next == '/' || next == '*')) || (p.last == '*' && next == '/') {
		need = true
	}
	if p.lay.Plain {
		if need || (p.last != 0 && p.last != '\n' && p.last != '(' && p.last != '<' && p.last != '[' && next != ',' && next != ';' && next != ')' && next != '>' && next != ']' && next != ':' && next != '<' && p.last != ' ') {
			p.raw(" ")
		}
		return
	}
	n := 0
	for {
		k := p.r.Intn(20)
		switch {
		case k < 8:
			if n == 0 && !need && p.r.Bool() {
				return
			}
			p.raw(" ")
		case k < 9:
			p.raw("\t")
		case k < 12 && p.lay.Newlines:
			if p.lay.CRLF && p.r.Bool() {
				p.raw("\r\n")
			} else {
				p.raw("\n")
			}
			p.raw(strings.Repeat(" ", p.r.Intn(5)))
		case k < 13 && p.lay.Comments:
			t := commentTexts[p.r.Intn(len(commentTexts))]
			t = strings.ReplaceAll(t, "*/", "* /")
			if p.last == '/' {
				p.raw(" ")
			}
			if p.r.Bool() && p.lay.Newlines {
				t = t + "\n more " + t
			}
			p.raw("/* " + t + " */")
		case k < 14 && p.lay.Comments:
			if p.last == '/' {
				p.raw(" ")
			}
			p.raw([]string{"# ", "// ", "#", "//"}[p.r.Intn(4)] + strings.ReplaceAll(commentTexts[p.r.Intn(len(commentTexts))], "\n", " ") + "\n")
		default:
			if n > 0 || !need {
				return
			}
			p.raw(" ")
		}
		n++
		if n > 4 {
			if need && !(p.last == ' ' || p.last == '\n' || p.last == '\t' || p.last == '/') {
				p.raw(" ")
			}
			return
		}
	}
}

// tok writes a token after a gap and returns where it starts.
func (p *Printer) tok(s string) Pos {
	if p.noGap {
		p.noGap = false
		pos := Pos{p.line, p.col}
		p.raw(s)
		return pos
	}
	p.gap(s[0])
	// the gap may have ended in a comment close "*/" or a word char
	if isWord(p.last) && isWord(s[0]) {
		p.raw(" ")
	}
	if p.last == '/' && (s[0] == '/' || s[0] == '*') {
		p.raw(" ")
	}
	pos := Pos{p.line, p.col}
	p.raw(s)
	return pos
}

func (p *Printer) nl() {
	if p.lay.Plain {
		p.raw("\n" + strings.Repeat("  ", p.depth))
		return
	}
	if p.r.Chance(2, 3) {
		p.raw("\n" + strings.Repeat(" ", p.r.Intn(6)))
	}
}

func (p *Printer) sep() {
	if p.lay.Plain {
		return
	}
	if p.lay.Seps {
		switch p.r.Intn(3) {
		case 0:
			p.tok(",")
		case 1:
			p.tok(";")
		}
	}
}

// doc writes a docstring directly before the node that consumes it.
func (p *Printer) doc(d *Doc) {
	if d == nil {
		return
	}
	if p.last != 0 && p.last != '\n' && p.last != ' ' {
		p.raw(" ")
	}
	if p.last == '/' {
		p.raw(" ")
	}
	indent := ""
	if strings.Contains(d.Raw, "\n") {
		// multi-line docstrings start on a fresh line at a known indent
		if p.last != '\n' && p.last != 0 {
			p.raw("\n")
		}
		indent = strings.Repeat(" ", 1+p.r.Intn(4))
		p.raw(indent)
		p.raw(strings.ReplaceAll(d.Raw, "\n", "\n"+indent))
		p.raw("\n" + indent)
	} else {
		p.raw(d.Raw)
		if p.r.Bool() {
			p.raw(" ")
		} else {
			p.raw("\n ")
		}
	}
	p.noGap = true
}

func (p *Printer) anns(as []Ann, force bool) {
	if as == nil && !force {
		return
	}
	p.tok("(")
	for i := range as {
		as[i].Pos = p.tok(as[i].Name)
		if as[i].HasValue {
			p.tok("=")
			p.tok(quote(as[i].Value, p.r, p.lay.Plain))
		}
		if i < len(as)-1 || p.r.Chance(1, 4) {
			if p.lay.Plain {
				if i < len(as)-1 {
					p.tok(",")
				}
			} else {
				p.sep()
			}
		}
	}
	p.tok(")")
}

func (p *Printer) typ(t *TypeRef) {
	switch t.Kind {
	case TBase:
		name := BaseNames[t.Base]
		if t.AsByte {
			name = "byte"
		}
		t.Pos = p.tok(name)
	case TNamed:
		t.Pos = p.tok(t.Name)
		return // no annotations on references in the grammar
	case TMap:
		t.Pos = p.tok("map")
		p.tok("<")
		p.typ(t.Key)
		p.tok(",")
		p.typ(t.Elem)
		p.tok(">")
	case TList, TSet:
		if t.Kind == TList {
			t.Pos = p.tok("list")
		} else {
			t.Pos = p.tok("set")
		}
		p.tok("<")
		p.typ(t.Elem)
		p.tok(">")
	}
	p.anns(t.Ann, false)
}

func (p *Printer) cnst(c *Const) {
	c.AfterEq = p.eqPos
	p.eqPos = nil
	switch c.Kind {
	case CInt, CDouble:
		c.Pos = p.tok(c.Lit)
	case CBool:
		if c.Bool {
			c.Pos = p.tok("true")
		} else {
			c.Pos = p.tok("false")
		}
	case CString:
		c.Pos = p.tok(quoteStyle(c.Str, c.Single, p.r, p.lay.Plain))
	case CRef:
		c.Pos = p.tok(c.Ref)
	case CList:
		c.Pos = p.tok("[")
		for i, it := range c.Items {
			p.cnst(it)
			if p.lay.Plain {
				if i < len(c.Items)-1 {
					p.tok(",")
				}
			} else {
				p.sep()
			}
		}
		p.tok("]")
	case CMap:
		c.Pos = p.tok("{")
		c.ItemPos = c.ItemPos[:0]
		for i := 0; i+1 < len(c.Items); i += 2 {
			p.cnst(c.Items[i])
			c.ItemPos = append(c.ItemPos, c.Items[i].Pos)
			colon := p.tok(":")
			p.eqPos = &colon
			p.cnst(c.Items[i+1])
			if p.lay.Plain {
				if i+2 < len(c.Items) {
					p.tok(",")
				}
			} else {
				p.sep()
			}
		}
		p.tok("}")
	}
}

func (p *Printer) field(f *Field) {
	p.doc(f.Doc)
	first := true
	mark := func(pos Pos) {
		if first {
			f.Pos = pos
			first = false
		}
	}
	if !f.IDUnset {
		lit := f.IDLit
		if lit == "" {
			lit = fmt.Sprint(f.ID)
		}
		mark(p.tok(lit))
		p.tok(":")
	}
	switch f.Req {
	case ReqRequired:
		mark(p.tok("required"))
	case ReqOptional:
		mark(p.tok("optional"))
	}
	p.typ(f.Type)
	mark(f.Type.Pos)
	p.tok(f.Name)
	if f.Default != nil {
		eq := p.tok("=")
		p.eqPos = &eq
		p.cnst(f.Default)
	}
	p.anns(f.Ann, false)
}

func (p *Printer) fields(fs []*Field) {
	for _, f := range fs {
		p.nl()
		p.field(f)
		p.sep()
	}
}

// Render prints the whole file, fills in all positions, and stores the text.
func (f *File) Render(r *core.Rand, lay Layout) {
	p := NewPrinter(r, lay)
	for _, h := range f.Headers {
		switch h.Kind {
		case "include":
			h.Pos = p.tok("include")
			if h.As != "" {
				p.tok(h.As)
			}
			p.tok(quote(h.Path, r, lay.Plain))
		case "cpp_include":
			h.Pos = p.tok("cpp_include")
			p.tok(quote(h.Path, r, lay.Plain))
		case "namespace":
			h.Pos = p.tok("namespace")
			p.tok(h.Scope)
			p.tok(h.Name)
		}
		p.raw("\n")
	}
	for _, d := range f.Defs {
		p.raw("\n")
		switch d := d.(type) {
		case *Constant:
			p.doc(d.Doc)
			d.Pos = p.tok("const")
			p.typ(d.Type)
			p.tok(d.Name)
			eq := p.tok("=")
			p.eqPos = &eq
			p.cnst(d.Value)
		case *Typedef:
			p.doc(d.Doc)
			d.Pos = p.tok("typedef")
			p.typ(d.Type)
			p.tok(d.Name)
			p.anns(d.Ann, false)
		case *Enum:
			p.doc(d.Doc)
			d.Pos = p.tok("enum")
			p.tok(d.Name)
			p.tok("{")
			p.depth++
			for _, it := range d.Items {
				p.nl()
				p.doc(it.Doc)
				it.Pos = p.tok(it.Name)
				if it.Explicit {
					p.tok("=")
					p.tok(it.Lit)
				}
				p.anns(it.Ann, false)
				p.sep()
			}
			p.depth--
			p.nl()
			p.tok("}")
			p.anns(d.Ann, false)
		case *Struct:
			p.doc(d.Doc)
			d.Pos = p.tok(StructKindNames[d.Kind])
			p.tok(d.Name)
			p.tok("{")
			p.depth++
			p.fields(d.Fields)
			p.depth--
			p.nl()
			p.tok("}")
			p.anns(d.Ann, false)
		case *Service:
			p.doc(d.Doc)
			d.Pos = p.tok("service")
			p.tok(d.Name)
			if d.Parent != "" {
				d.ExtendsPos = p.tok("extends")
				d.ParentPos = p.tok(d.Parent)
			}
			p.tok("{")
			p.depth++
			for _, fn := range d.Funcs {
				p.nl()
				p.doc(fn.Doc)
				first := true
				if fn.OneWay {
					fn.Pos = p.tok("oneway")
					first = false
				}
				if fn.Return == nil {
					pos := p.tok("void")
					if first {
						fn.Pos = pos
					}
				} else {
					p.typ(fn.Return)
					if first {
						fn.Pos = fn.Return.Pos
					}
				}
				p.tok(fn.Name)
				p.tok("(")
				p.depth++
				p.fields(fn.Params)
				p.depth--
				p.tok(")")
				if len(fn.Throws) > 0 || fn.HasThrows {
					p.tok("throws")
					p.tok("(")
					p.depth++
					p.fields(fn.Throws)
					p.depth--
					p.tok(")")
				}
				p.anns(fn.Ann, false)
				p.sep()
			}
			p.depth--
			p.nl()
			p.tok("}")
			p.anns(d.Ann, false)
		}
		p.sep()
		if lay.Plain || r.Chance(3, 4) {
			p.raw("\n")
		}
	}
	if !lay.Plain && lay.Comments && r.Chance(1, 3) {
		p.raw("# trailing comment without newline")
	}
	f.Text = p.sb.String()
	f.Lines = p.line
}

// quote renders a string literal in a random quoting style.
func quote(s string, r *core.Rand, plain bool) string {
	return quoteStyle(s, !plain && r.Chance(1, 3), r, plain)
}

func quoteStyle(s string, single bool, r *core.Rand, plain bool) string {
	q := byte('"')
	if single {
		q = '\''
	}
	var sb strings.Builder
	sb.WriteByte(q)
	for i := 0; i < len(s); i++ {
		c := s[i]
		switch {
		case !plain && c >= 0x20 && c < 0x7f && (((c == '"' || c == '\'') && r.Chance(1, 4)) || r.Chance(1, 40)):
			// numeric escapes denote the character whatever the quoting style
			switch r.Intn(3) {
			case 0:
				fmt.Fprintf(&sb, `\x%02x`, c)
			case 1:
				fmt.Fprintf(&sb, `\u%04x`, c)
			default:
				fmt.Fprintf(&sb, `\%03o`, c)
			}
		case c == '\\':
			sb.WriteString(`\\`)
		case c == q:
			sb.WriteByte('\\')
			sb.WriteByte(c)
		case c == '"' || c == '\'':
			// the other quote: raw or escaped, both denote the quote character
			if !plain && r.Bool() {
				sb.WriteByte('\\')
			}
			sb.WriteByte(c)
		case c == '\n':
			sb.WriteString(`\n`)
		case c == '\t':
			if !plain && r.Bool() {
				sb.WriteByte('\t')
			} else {
				sb.WriteString(`\t`)
			}
		case c == '\r':
			sb.WriteString(`\r`)
		case c < 0x20 || c == 0x7f:
			fmt.Fprintf(&sb, `\x%02x`, c)
		case c >= 0x80:
			// valid UTF-8 sequences are copied raw by the caller's choice of
			// strings; stray high bytes are escaped
			if n := utf8Len(s[i:]); n > 1 {
				sb.WriteString(s[i : i+n])
				i += n - 1
			} else {
				fmt.Fprintf(&sb, `\x%02x`, c)
			}
		default:
			sb.WriteByte(c)
		}
	}
	sb.WriteByte(q)
	return sb.String()
}

func utf8Len(s string) int {
	c := s[0]
	n := 0
	switch {
	case c&0xe0 == 0xc0 && c >= 0xc2:
		n = 2
	case c&0xf0 == 0xe0:
		n = 3
	case c&0xf8 == 0xf0 && c <= 0xf4:
		n = 4
	default:
		return 1
	}
	if len(s) < n {
		return 1
	}
	for i := 1; i < n; i++ {
		if s[i]&0xc0 != 0x80 {
			return 1
		}
	}
	// reject overlongs / surrogates conservatively by decoding
	rn := []rune(s[:n])
	if len(rn) != 1 || rn[0] == 0xfffd {
		return 1
	}
	return n
}
