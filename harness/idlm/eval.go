package idlm

import (
	"fmt"
	"math"
	"path"
	"sort"
	"strconv"
	"strings"
)

// LVal is a logical value typed by the model.
type LKind int

const (
	LBool LKind = iota
	LInt        // i8..i64
	LDouble
	LString // string and binary (bytes)
	LEnum
	LList
	LSet
	LMap // Items: k0,v0,k1,v1
	LStruct
)

type LVal struct {
	K      LKind
	B      bool
	I      int64
	F      float64
	S      string
	Items  []*LVal
	Fields map[string]*LVal // struct: set fields by thrift name
	Type   *TypeRef         // the (root) type this value was cast to
	Item   *EnumItem        // enum: the item bound (nil if none has this value)
	// Ambig: a container whose element wire type differs from the reader's
	// declaration; the statement does not say what the reader reports for it
	// (unset and empty are both accepted), only that nothing else is affected.
	Ambig bool
}

// Eval casts a constant expression to a type the way Thrift constants are
// defined: integers widen to doubles and 0/1 to bools, enum values are given
// by item reference or by number, list literals initialise sets, map literals
// with string keys initialise structs whose omitted defaulted fields take
// their defaults, references denote the referenced constant's value cast to
// the type at the point of use.
func Eval(c *Const, t *TypeRef) *LVal {
	rt := t.Root()
	if c.Kind == CRef && c.RefConst != nil {
		return Eval(c.RefConst.Value, t)
	}
	switch rt.Kind {
	case TBase:
		switch rt.Base {
		case BBool:
			if c.Kind == CInt {
				return &LVal{K: LBool, B: c.Int == 1, Type: rt}
			}
			return &LVal{K: LBool, B: c.Bool, Type: rt}
		case BI8, BI16, BI32, BI64:
			return &LVal{K: LInt, I: c.Int, Type: rt}
		case BDouble:
			if c.Kind == CInt {
				return &LVal{K: LDouble, F: float64(c.Int), Type: rt}
			}
			f := c.Dbl
			if f == 0 {
				// the literals 0.0 and -0.0 denote the same number; the sign of a
				// zero literal is not something a typed constant preserves
				f = 0
			}
			return &LVal{K: LDouble, F: f, Type: rt}
		case BString, BBinary:
			return &LVal{K: LString, S: c.Str, Type: rt}
		}
	case TList, TSet:
		v := &LVal{K: LList, Type: rt}
		if rt.Kind == TSet {
			v.K = LSet
		}
		for _, it := range c.Items {
			v.Items = append(v.Items, Eval(it, rt.Elem))
		}
		return v
	case TMap:
		v := &LVal{K: LMap, Type: rt}
		for i := 0; i+1 < len(c.Items); i += 2 {
			v.Items = append(v.Items, Eval(c.Items[i], rt.Key), Eval(c.Items[i+1], rt.Elem))
		}
		return v
	case TNamed:
		switch d := rt.Target.(type) {
		case *Enum:
			if c.Kind == CInt {
				v := &LVal{K: LEnum, I: c.Int, Type: rt}
				for _, it := range d.Items {
					if it.Value == c.Int {
						v.Item = it
						break
					}
				}
				return v
			}
			return &LVal{K: LEnum, I: c.RefItem.Value, Item: c.RefItem, Type: rt}
		case *Struct:
			v := &LVal{K: LStruct, Type: rt, Fields: map[string]*LVal{}}
			given := map[string]*Const{}
			for i := 0; i+1 < len(c.Items); i += 2 {
				given[c.Items[i].Str] = c.Items[i+1]
			}
			for _, f := range d.Fields {
				if g, ok := given[f.Name]; ok {
					v.Fields[f.Name] = Eval(g, f.Type)
				} else if f.Default != nil {
					v.Fields[f.Name] = Eval(f.Default, f.Type)
				}
			}
			return v
		}
	}
	panic(fmt.Sprintf("Eval: constant kind %d cannot be cast to %s", c.Kind, TypeString(t)))
}

// LKey is a canonical, order-insensitive rendering of a value (sets and maps
// sorted), used for duplicate detection and for dumps.
func LKey(v *LVal) string {
	if v == nil {
		return "<unset>"
	}
	switch v.K {
	case LBool:
		return strconv.FormatBool(v.B)
	case LInt:
		return strconv.FormatInt(v.I, 10)
	case LDouble:
		if v.F == 0 {
			return "0" // +0 and -0 are one map key
		}
		return strconv.FormatFloat(v.F, 'g', -1, 64)
	case LString:
		return strconv.Quote(v.S)
	case LEnum:
		return "enum(" + strconv.FormatInt(v.I, 10) + ")"
	case LList:
		var p []string
		for _, it := range v.Items {
			p = append(p, LKey(it))
		}
		return "[" + strings.Join(p, ",") + "]"
	case LSet:
		var p []string
		for _, it := range v.Items {
			p = append(p, LKey(it))
		}
		sort.Strings(p)
		return "set[" + strings.Join(p, ",") + "]"
	case LMap:
		var p []string
		for i := 0; i+1 < len(v.Items); i += 2 {
			p = append(p, LKey(v.Items[i])+":"+LKey(v.Items[i+1]))
		}
		sort.Strings(p)
		return "{" + strings.Join(p, ",") + "}"
	case LStruct:
		var names []string
		for n := range v.Fields {
			names = append(names, n)
		}
		sort.Strings(names)
		var p []string
		for _, n := range names {
			p = append(p, n+"="+LKey(v.Fields[n]))
		}
		return "struct{" + strings.Join(p, ",") + "}"
	}
	return "?"
}

// TypeString renders a resolved type expression with definitions named by
// (file, name): the identity the linker must establish.
func TypeString(t *TypeRef) string {
	if t == nil {
		return "void"
	}
	switch t.Kind {
	case TBase:
		return BaseNames[t.Base]
	case TMap:
		return "map<" + TypeString(t.Key) + "," + TypeString(t.Elem) + ">"
	case TList:
		return "list<" + TypeString(t.Elem) + ">"
	case TSet:
		return "set<" + TypeString(t.Elem) + ">"
	}
	return t.TFile.Path + ":" + t.Target.DefName()
}

// Dump renders the model's resolution of a program set in the canonical form
// that the compiled module graph is rendered to on the other side (C07).
func (p *Program) Dump() []string {
	var out []string
	add := func(f string, a ...any) { out = append(out, fmt.Sprintf(f, a...)) }
	for _, f := range p.Files {
		add("module %s", f.Path)
		for _, h := range f.Headers {
			if h.Kind == "include" {
				add("%s include %s -> %s", f.Path, strings.TrimSuffix(path.Base(h.Path), ".thrift"), h.Target.Path)
			}
		}
		for _, d := range f.Defs {
			switch d := d.(type) {
			case *Typedef:
				add("%s typedef %s target=%s root=%s", f.Path, d.Name, TypeString(d.Type), TypeString(d.Type.Root()))
			case *Enum:
				var its []string
				for _, it := range d.Items {
					its = append(its, fmt.Sprintf("%s=%d", it.Name, it.Value))
				}
				add("%s enum %s {%s}", f.Path, d.Name, strings.Join(its, ","))
			case *Struct:
				add("%s %s %s", f.Path, StructKindNames[d.Kind], d.Name)
				for _, fl := range d.Fields {
					add("%s   %s.%s id=%d required=%v type=%s default=%s", f.Path, d.Name, fl.Name, fl.ID, fl.Req == ReqRequired && fl.Default == nil, TypeString(fl.Type), dumpDefault(fl))
				}
			case *Constant:
				add("%s const %s type=%s value=%s", f.Path, d.Name, TypeString(d.Type), LKey(Eval(d.Value, d.Type)))
			case *Service:
				parent := "-"
				if d.ParentSvc != nil {
					parent = fileOfService(p, d.ParentSvc) + ":" + d.ParentSvc.Name
				}
				add("%s service %s parent=%s", f.Path, d.Name, parent)
				for _, fn := range d.Funcs {
					add("%s   %s.%s oneway=%v returns=%s", f.Path, d.Name, fn.Name, fn.OneWay, TypeString(fn.Return))
					for _, a := range fn.Params {
						add("%s     %s.%s arg %s id=%d required=%v type=%s", f.Path, d.Name, fn.Name, a.Name, a.ID, a.Req == ReqRequired && a.Default == nil, TypeString(a.Type))
					}
					for _, a := range fn.Throws {
						add("%s     %s.%s throws %s id=%d type=%s", f.Path, d.Name, fn.Name, a.Name, a.ID, TypeString(a.Type))
					}
				}
			}
		}
	}
	sort.Strings(out)
	return out
}

func dumpDefault(f *Field) string {
	if f.Default == nil {
		return "-"
	}
	return LKey(Eval(f.Default, f.Type))
}

func fileOfService(p *Program, s *Service) string {
	for _, f := range p.Files {
		for _, d := range f.Defs {
			if d == Def(s) {
				return f.Path
			}
		}
	}
	return "?"
}

var _ = math.MaxInt32
