package idlm

import (
	"fmt"

	"verif/harness/core"
)

// MakeInvalid plants one definite defect into a valid program and says which.
// Every planted defect makes the program invalid regardless of definition or
// resolution order.
func MakeInvalid(p *Program, r *core.Rand) string {
	f := p.Files[r.Intn(len(p.Files))]
	name := func(s string) string { return fmt.Sprintf("%sZz%d", s, r.Intn(1000)) }
	ref := func(n string) *TypeRef { return &TypeRef{Kind: TNamed, Name: n} }
	switch r.Intn(9) {
	case 0:
		a := name("Cyc")
		f.Defs = append(f.Defs, &Typedef{Name: a, Type: ref(a)})
		return "typedef-cycle: typedef " + a + " " + a
	case 1:
		a, b := name("CycA"), name("CycB")
		f.Defs = append(f.Defs, &Typedef{Name: a, Type: ref(b)}, &Typedef{Name: b, Type: ref(a)})
		return "typedef-cycle: " + a + " <-> " + b
	case 2:
		a, b := name("CycL"), name("CycM")
		k := []TypeKind{TList, TSet}[r.Intn(2)]
		f.Defs = append(f.Defs, &Typedef{Name: a, Type: &TypeRef{Kind: k, Elem: ref(b)}}, &Typedef{Name: b, Type: ref(a)})
		return "typedef-cycle-through-container: " + a + " = container<" + b + ">, " + b + " = " + a
	case 3:
		a := name("CycS")
		f.Defs = append(f.Defs, &Typedef{Name: a, Type: &TypeRef{Kind: TMap, Key: &TypeRef{Kind: TBase, Base: BString}, Elem: ref(a)}})
		return "typedef-cycle-through-container: " + a + " = map<string," + a + ">"
	case 4:
		a := name("Dangling")
		f.Defs = append(f.Defs, &Struct{Kind: KStruct, Name: name("Holder"), Fields: []*Field{{ID: 1, IDLit: "1", Req: ReqOptional, Name: "x", Type: ref(a)}}})
		return "dangling-type-reference: " + a
	case 5:
		a := name("noSuchInclude") + ".T"
		f.Defs = append(f.Defs, &Typedef{Name: name("Td"), Type: ref(a)})
		return "unknown-include-qualifier: " + a
	case 6:
		a := name("Dup")
		f.Defs = append(f.Defs, &Enum{Name: a, Items: []*EnumItem{{Name: "A"}}}, &Struct{Kind: KStruct, Name: a})
		return "duplicate-definition-name: " + a
	case 7:
		a := name("kWrong")
		f.Defs = append(f.Defs, &Constant{Name: a, Type: &TypeRef{Kind: TBase, Base: BI32}, Value: &Const{Kind: CString, Str: "not a number"}})
		return "constant-of-wrong-kind: i32 = string"
	default:
		a := name("kMissing")
		f.Defs = append(f.Defs, &Constant{Name: a, Type: &TypeRef{Kind: TBase, Base: BI32}, Value: &Const{Kind: CRef, Ref: name("nope")}})
		return "dangling-constant-reference"
	}
}
