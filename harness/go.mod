module verif/harness

go 1.22.1

require go.uber.org/thriftrw v0.0.0

replace go.uber.org/thriftrw => /repo
