// Package wbridge converts between refcodec trees and thriftrw's wire values
// and drives thriftrw's stream reader/writer generically. Linked only into
// children.
package wbridge

import (
	"fmt"
	"io"
	"math"

	"go.uber.org/thriftrw/protocol/stream"
	"go.uber.org/thriftrw/wire"
	rc "verif/harness/refcodec"
)

// ToWire builds a wire.Value from a tree.
func ToWire(w rc.W) wire.Value {
	switch w.T {
	case rc.TBool:
		return wire.NewValueBool(w.I != 0)
	case rc.TI8:
		return wire.NewValueI8(int8(w.I))
	case rc.TI16:
		return wire.NewValueI16(int16(w.I))
	case rc.TI32:
		return wire.NewValueI32(int32(w.I))
	case rc.TI64:
		return wire.NewValueI64(w.I)
	case rc.TDouble:
		return wire.NewValueDouble(math.Float64frombits(w.F))
	case rc.TBinary:
		return wire.NewValueBinary(w.B)
	case rc.TStruct:
		fs := make([]wire.Field, len(w.Fields))
		for i, f := range w.Fields {
			fs[i] = wire.Field{ID: f.ID, Value: ToWire(f.V)}
		}
		return wire.NewValueStruct(wire.Struct{Fields: fs})
	case rc.TMap:
		items := make([]wire.MapItem, 0, len(w.Items)/2)
		for i := 0; i+1 < len(w.Items); i += 2 {
			items = append(items, wire.MapItem{Key: ToWire(w.Items[i]), Value: ToWire(w.Items[i+1])})
		}
		return wire.NewValueMap(wire.MapItemListFromSlice(wire.Type(w.KT), wire.Type(w.VT), items))
	case rc.TSet, rc.TList:
		items := make([]wire.Value, len(w.Items))
		for i, it := range w.Items {
			items[i] = ToWire(it)
		}
		l := wire.ValueListFromSlice(wire.Type(w.VT), items)
		if w.T == rc.TSet {
			return wire.NewValueSet(l)
		}
		return wire.NewValueList(l)
	}
	panic(fmt.Sprintf("wbridge: bad tree type %d", w.T))
}

// FromWire materialises a wire.Value (forcing lazy containers) into a tree and
// closes every lazy container afterwards; values are never touched after
// their Close.
func FromWire(v wire.Value) (rc.W, error) {
	switch v.Type() {
	case wire.TBool:
		return rc.Bool(v.GetBool()), nil
	case wire.TI8:
		return rc.I8(v.GetI8()), nil
	case wire.TI16:
		return rc.I16(v.GetI16()), nil
	case wire.TI32:
		return rc.I32(v.GetI32()), nil
	case wire.TI64:
		return rc.I64(v.GetI64()), nil
	case wire.TDouble:
		return rc.Double(math.Float64bits(v.GetDouble())), nil
	case wire.TBinary:
		return rc.Binary(append([]byte{}, v.GetBinary()...)), nil
	case wire.TStruct:
		w := rc.W{T: rc.TStruct}
		for _, f := range v.GetStruct().Fields {
			x, err := FromWire(f.Value)
			if err != nil {
				return rc.W{}, err
			}
			w.Fields = append(w.Fields, rc.Field{ID: f.ID, V: x})
		}
		return w, nil
	case wire.TMap:
		m := v.GetMap()
		w := rc.W{T: rc.TMap, KT: byte(m.KeyType()), VT: byte(m.ValueType())}
		err := m.ForEach(func(it wire.MapItem) error {
			k, err := FromWire(it.Key)
			if err != nil {
				return err
			}
			x, err := FromWire(it.Value)
			if err != nil {
				return err
			}
			w.Items = append(w.Items, k, x)
			return nil
		})
		n := m.Size()
		m.Close()
		if err != nil {
			return rc.W{}, err
		}
		if n != len(w.Items)/2 {
			return rc.W{}, fmt.Errorf("wbridge: map Size()=%d but ForEach yielded %d", n, len(w.Items)/2)
		}
		return w, nil
	case wire.TSet, wire.TList:
		var l wire.ValueList
		t := byte(rc.TList)
		if v.Type() == wire.TSet {
			l = v.GetSet()
			t = rc.TSet
		} else {
			l = v.GetList()
		}
		w := rc.W{T: t, VT: byte(l.ValueType())}
		err := l.ForEach(func(it wire.Value) error {
			x, err := FromWire(it)
			if err != nil {
				return err
			}
			w.Items = append(w.Items, x)
			return nil
		})
		n := l.Size()
		l.Close()
		if err != nil {
			return rc.W{}, err
		}
		if n != len(w.Items) {
			return rc.W{}, fmt.Errorf("wbridge: list Size()=%d but ForEach yielded %d", n, len(w.Items))
		}
		return w, nil
	}
	return rc.W{}, fmt.Errorf("wbridge: wire value of unknown type %d", v.Type())
}

// StreamWrite emits the call sequence corresponding to a tree.
func StreamWrite(sw stream.Writer, w rc.W) error {
	switch w.T {
	case rc.TBool:
		return sw.WriteBool(w.I != 0)
	case rc.TI8:
		return sw.WriteInt8(int8(w.I))
	case rc.TI16:
		return sw.WriteInt16(int16(w.I))
	case rc.TI32:
		return sw.WriteInt32(int32(w.I))
	case rc.TI64:
		return sw.WriteInt64(w.I)
	case rc.TDouble:
		return sw.WriteDouble(math.Float64frombits(w.F))
	case rc.TBinary:
		if len(w.B)%2 == 1 {
			return sw.WriteString(string(w.B))
		}
		return sw.WriteBinary(w.B)
	case rc.TStruct:
		if err := sw.WriteStructBegin(); err != nil {
			return err
		}
		for _, f := range w.Fields {
			if err := sw.WriteFieldBegin(stream.FieldHeader{ID: f.ID, Type: wire.Type(f.V.T)}); err != nil {
				return err
			}
			if err := StreamWrite(sw, f.V); err != nil {
				return err
			}
			if err := sw.WriteFieldEnd(); err != nil {
				return err
			}
		}
		return sw.WriteStructEnd()
	case rc.TMap:
		if err := sw.WriteMapBegin(stream.MapHeader{KeyType: wire.Type(w.KT), ValueType: wire.Type(w.VT), Length: len(w.Items) / 2}); err != nil {
			return err
		}
		for _, it := range w.Items {
			if err := StreamWrite(sw, it); err != nil {
				return err
			}
		}
		return sw.WriteMapEnd()
	case rc.TSet:
		if err := sw.WriteSetBegin(stream.SetHeader{Type: wire.Type(w.VT), Length: len(w.Items)}); err != nil {
			return err
		}
		for _, it := range w.Items {
			if err := StreamWrite(sw, it); err != nil {
				return err
			}
		}
		return sw.WriteSetEnd()
	case rc.TList:
		if err := sw.WriteListBegin(stream.ListHeader{Type: wire.Type(w.VT), Length: len(w.Items)}); err != nil {
			return err
		}
		for _, it := range w.Items {
			if err := StreamWrite(sw, it); err != nil {
				return err
			}
		}
		return sw.WriteListEnd()
	}
	return fmt.Errorf("wbridge: bad tree type %d", w.T)
}

// ErrBudget ends a generic stream read whose declared sizes would make the
// harness itself (not thriftrw) allocate without bound.
var ErrBudget = fmt.Errorf("wbridge: harness node budget exhausted")

// StreamRead decodes one value of type t by walking the headers the stream
// reader reports. budget bounds the number of nodes the harness materialises.
func StreamRead(sr stream.Reader, t byte, budget *int) (rc.W, error) {
	*budget--
	if *budget < 0 {
		return rc.W{}, ErrBudget
	}
	switch t {
	case rc.TBool:
		v, err := sr.ReadBool()
		return rc.Bool(v), err
	case rc.TI8:
		v, err := sr.ReadInt8()
		return rc.I8(v), err
	case rc.TI16:
		v, err := sr.ReadInt16()
		return rc.I16(v), err
	case rc.TI32:
		v, err := sr.ReadInt32()
		return rc.I32(v), err
	case rc.TI64:
		v, err := sr.ReadInt64()
		return rc.I64(v), err
	case rc.TDouble:
		v, err := sr.ReadDouble()
		return rc.Double(math.Float64bits(v)), err
	case rc.TBinary:
		v, err := sr.ReadBinary()
		return rc.Binary(v), err
	case rc.TStruct:
		w := rc.W{T: rc.TStruct}
		if err := sr.ReadStructBegin(); err != nil {
			return w, err
		}
		for {
			fh, ok, err := sr.ReadFieldBegin()
			if err != nil {
				return w, err
			}
			if !ok {
				break
			}
			v, err := StreamRead(sr, byte(fh.Type), budget)
			if err != nil {
				return w, err
			}
			w.Fields = append(w.Fields, rc.Field{ID: fh.ID, V: v})
			if err := sr.ReadFieldEnd(); err != nil {
				return w, err
			}
		}
		return w, sr.ReadStructEnd()
	case rc.TMap:
		mh, err := sr.ReadMapBegin()
		if err != nil {
			return rc.W{}, err
		}
		w := rc.W{T: rc.TMap, KT: byte(mh.KeyType), VT: byte(mh.ValueType)}
		for i := 0; i < mh.Length; i++ {
			k, err := StreamRead(sr, w.KT, budget)
			if err != nil {
				return w, err
			}
			v, err := StreamRead(sr, w.VT, budget)
			if err != nil {
				return w, err
			}
			w.Items = append(w.Items, k, v)
		}
		return w, sr.ReadMapEnd()
	case rc.TSet:
		sh, err := sr.ReadSetBegin()
		if err != nil {
			return rc.W{}, err
		}
		w := rc.W{T: rc.TSet, VT: byte(sh.Type)}
		for i := 0; i < sh.Length; i++ {
			v, err := StreamRead(sr, w.VT, budget)
			if err != nil {
				return w, err
			}
			w.Items = append(w.Items, v)
		}
		return w, sr.ReadSetEnd()
	case rc.TList:
		lh, err := sr.ReadListBegin()
		if err != nil {
			return rc.W{}, err
		}
		w := rc.W{T: rc.TList, VT: byte(lh.Type)}
		for i := 0; i < lh.Length; i++ {
			v, err := StreamRead(sr, w.VT, budget)
			if err != nil {
				return w, err
			}
			w.Items = append(w.Items, v)
		}
		return w, sr.ReadListEnd()
	}
	return rc.W{}, fmt.Errorf("unknown type code %d", t)
}

// ---- scripted chunking --------------------------------------------------------

// Chunking classes.
const (
	ChunkWhole = iota
	ChunkOne
	ChunkFixed
	ChunkRandom
	ChunkZeroes // zero-length (0,nil) reads interleaved
	ChunkFirstOne
	ChunkEagerEOF // the read that delivers the last byte also returns io.EOF (legal for io.Reader)
	NumChunkings
)

var ChunkNames = []string{"whole", "one-byte", "fixed-k", "random", "zero-length-interleaved", "first-read-1", "eof-with-last-bytes"}

// ChunkReader hands out a byte string under a scripted segmentation and counts
// what was asked of it. It is deliberately not a Seeker.
type ChunkReader struct {
	B      []byte
	Off    int
	Class  int
	K      int
	State  uint64
	Calls  int
	Asked  int64 // sum of len(p)
	zeroed bool
}

func NewChunkReader(b []byte, class int, seed uint64) *ChunkReader {
	return &ChunkReader{B: b, Class: class, K: int(seed%7) + 2, State: seed | 1}
}

func (c *ChunkReader) next() uint64 {
	c.State ^= c.State << 13
	c.State ^= c.State >> 7
	c.State ^= c.State << 17
	return c.State
}

func (c *ChunkReader) Read(p []byte) (int, error) {
	c.Calls++
	c.Asked += int64(len(p))
	if len(p) == 0 {
		return 0, nil
	}
	if c.Off >= len(c.B) {
		return 0, io.EOF
	}
	n := len(p)
	switch c.Class {
	case ChunkOne:
		n = 1
	case ChunkFixed:
		if n > c.K {
			n = c.K
		}
	case ChunkRandom:
		n = int(c.next()%uint64(n)) + 1
	case ChunkZeroes:
		if !c.zeroed {
			c.zeroed = true
			return 0, nil
		}
		c.zeroed = false
		n = int(c.next()%uint64(n)) + 1
	case ChunkFirstOne:
		if c.Off == 0 {
			n = 1
		}
	}
	if n > len(c.B)-c.Off {
		n = len(c.B) - c.Off
	}
	copy(p, c.B[c.Off:c.Off+n])
	c.Off += n
	if c.Class == ChunkEagerEOF && c.Off == len(c.B) {
		return n, io.EOF
	}
	return n, nil
}

// EagerAt is an io.ReaderAt that returns io.EOF together with the bytes of a
// read that ends exactly at the end of the data, as the contract allows.
type EagerAt struct{ B []byte }

func (e EagerAt) ReadAt(p []byte, off int64) (int, error) {
	if off < 0 || off > int64(len(e.B)) {
		return 0, io.EOF
	}
	n := copy(p, e.B[off:])
	if n < len(p) || off+int64(n) == int64(len(e.B)) {
		return n, io.EOF
	}
	return n, nil
}

// SeekChunkReader is the seekable variant.
type SeekChunkReader struct {
	ChunkReader
	Seeks int
}

func (s *SeekChunkReader) Seek(off int64, whence int) (int64, error) {
	s.Seeks++
	var n int64
	switch whence {
	case io.SeekStart:
		n = off
	case io.SeekCurrent:
		n = int64(s.Off) + off
	case io.SeekEnd:
		n = int64(len(s.B)) + off
	}
	if n < 0 {
		return int64(s.Off), fmt.Errorf("seek before start")
	}
	s.Off = int(n)
	return n, nil
}
