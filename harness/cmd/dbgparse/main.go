//go:build verif

// dbgparse prints the neutral tree of a thrift document read from stdin.
package main

import (
	"fmt"
	"io"
	"os"

	"go.uber.org/thriftrw/idl"
	"verif/harness/idlm"
	"verif/harness/monitors/idlmon"
)

func dump(n *idlm.Node, ind string) {
	fmt.Printf("%s%s %q @%d:%d\n", ind, n.Kind, n.Attrs, n.Line, n.Col)
	for _, k := range n.Kids {
		dump(k, ind+"  ")
	}
}

func main() {
	b, _ := io.ReadAll(os.Stdin)
	info := &idl.Info{}
	p, err := (&idl.Config{Info: info}).Parse(b)
	if err != nil {
		fmt.Println("ERR", err)
		return
	}
	dump(idlmon.ProgramNode(p, info), "")
}
