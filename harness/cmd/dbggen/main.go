// dbggen prints the programs of a generated-program stream: dbggen <seed> <stream> <from> <to>
package main

import (
	"fmt"
	"os"
	"sort"
	"strconv"

	"verif/harness/genlab"
)

func main() {
	seed, _ := strconv.ParseUint(os.Args[1], 10, 64)
	from, _ := strconv.ParseUint(os.Args[3], 10, 64)
	to, _ := strconv.ParseUint(os.Args[4], 10, 64)
	spec := genlab.NamedSpec(os.Args[2], nil, from, to)
	for i := from; i < to; i++ {
		pr := genlab.Derive(seed, spec, i)
		fmt.Printf("#### program %d cli=%s\n", i, pr.CLI.String())
		fs := pr.Files()
		var names []string
		for n := range fs {
			names = append(names, n)
		}
		sort.Strings(names)
		for _, n := range names {
			fmt.Printf("== %s\n%s\n", n, fs[n])
		}
	}
}
