package main

import (
	"time"

	"verif/harness/core"
)

func init() { checks["C11"] = c11 }

func c11(r *core.Run) {
	bin := r.GoBuild("vchild", "./cmd/vchild")
	hm := uint64(0)
	if !r.Quick() {
		hm = 7
	}
	run := func(stream string, n uint64) {
		r.RunChildren(core.ChildSpec{Bin: bin, Monitor: "c11", Stream: stream, From: 0, To: n, Timeout: 20 * time.Minute, HMask: hm})
	}
	run("valid", uint64(r.Pick(60000, 2000000)))
	run("plain", uint64(r.Pick(10000, 300000)))
	run("bytes", uint64(r.Pick(600000, 20000000)))
	r.Require("valid_docs", 1000)
	r.Require("nodes", 10000)
	r.Require("walk_nodes", 10000)
	r.Require("bytes_rejected", 1000)
	r.Set("distinct_hash_sampling", hm+1)
	r.Assumption("the pretty-printer's own bookkeeping of first-token line/column is the statement of 'true position'; scalar constants are compared up to sharing of Info.Pos entries between equal values")
	r.Assumption("docstrings are rendered only in shapes whose expected text is unambiguous: one-line /** t */ and star-prefixed multi-line blocks")
	r.FinishStd("documents drawn from the full grammar (headers incl. include-as and cpp_include, all definition kinds, nested types, constants incl. hex/signed/exponent literals and both quote styles with escapes, annotations everywhere, docstrings) rendered with randomised layout (newlines/CRLF, three comment kinds, optional separators) and compared node-by-node (structure, names, literal values, docstrings, line:column) with the parser's tree, plus ast.Walk order/parent check; random and token-mutated byte strings for totality and error positions. non-trivial = document with >= 1 definition / byte string > 8 bytes", "cases")
}
