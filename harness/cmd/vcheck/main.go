// vcheck is the orchestrator: it builds children from /repo's working tree,
// runs workloads in child processes, applies the verdict rules and writes the
// evidence file. It links no thriftrw code under test.
package main

import (
	"fmt"
	"os"

	"verif/harness/core"
)

var checks = map[string]func(r *core.Run){}

func main() {
	if len(os.Args) < 3 {
		fmt.Println("usage: check <Cxx> <quick|thorough> | check <Cxx> --replay <path>")
		os.Exit(2)
	}
	id, tier := os.Args[1], os.Args[2]
	if tier == "--replay" {
		if len(os.Args) < 4 {
			core.Inconclusive("missing replay path")
		}
		replay(id, os.Args[3])
		return
	}
	if t := os.Getenv("VERIF_TIER"); t != "" && (t == "quick" || t == "thorough") && len(os.Args) == 2 {
		tier = t
	}
	if tier != "quick" && tier != "thorough" {
		core.Inconclusive("unknown tier %q", tier)
	}
	fn := checks[id]
	if fn == nil {
		core.Inconclusive("no check for %s", id)
	}
	fn(core.NewRun(id, tier))
}
