package main

import (
	"bytes"
	"encoding/json"
	"fmt"
	"os"
	"os/exec"
	"path/filepath"
	"regexp"
	"runtime"
	"sort"
	"strconv"
	"strings"
	"sync"

	"verif/harness/core"
	"verif/harness/idlm"
)

func init() { checks["C20"] = c20 }

type diag struct {
	file  string
	kind  string
	names string
	full  string // full path of the edited file (not part of the comparison)
}

func (d diag) String() string { return d.file + " | " + d.kind + " | " + d.names }

var quotedRe = regexp.MustCompile(`"((?:[^"\\]|\\.)*)"`)

// parseDiag classifies a thriftbreak message by its documented kind and the
// quoted names it carries, so cosmetic rewording is not a difference.
func parseDiag(file, msg string) (diag, bool) {
	var names []string
	for _, m := range quotedRe.FindAllStringSubmatch(msg, -1) {
		names = append(names, m[1])
	}
	kind := ""
	keep := 2
	switch {
	case strings.Contains(msg, "deleting service"):
		kind, keep = "service-removed", 1
		file = filepath.Base(file) // the tool reports the base name for this kind
	case strings.Contains(msg, "removing method"):
		kind = "method-removed"
	case strings.Contains(msg, "adding a required field"):
		kind = "required-field-added"
	case strings.Contains(msg, "to required"):
		kind = "optional-to-required"
	case strings.Contains(msg, "changing type"):
		kind = "field-type-changed"
	default:
		return diag{}, false
	}
	if len(names) < keep {
		return diag{}, false
	}
	return diag{file, kind, strings.Join(names[:keep], ","), ""}, true
}

type c20Edit struct {
	desc string
	exp  []diag
}

func cloneFieldList(fs []*idlm.Field) []*idlm.Field { return append([]*idlm.Field{}, fs...) }

// referenced reports whether any type reference or service parent in the
// program names def.
func referenced(p *idlm.Program, def idlm.Def) bool {
	found := false
	var walk func(t *idlm.TypeRef)
	walk = func(t *idlm.TypeRef) {
		if t == nil {
			return
		}
		if t.Kind == idlm.TNamed && t.Target == def {
			found = true
		}
		walk(t.Key)
		walk(t.Elem)
	}
	for _, f := range p.Files {
		for _, d := range f.Defs {
			switch d := d.(type) {
			case *idlm.Typedef:
				walk(d.Type)
			case *idlm.Struct:
				for _, fl := range d.Fields {
					walk(fl.Type)
				}
			case *idlm.Constant:
				walk(d.Type)
			case *idlm.Service:
				if idlm.Def(d.ParentSvc) == def && d.ParentSvc != nil {
					found = true
				}
				for _, fn := range d.Funcs {
					walk(fn.Return)
					for _, a := range fn.Params {
						walk(a.Type)
					}
					for _, a := range fn.Throws {
						walk(a.Type)
					}
				}
			}
		}
	}
	return found
}

func maxFieldID(s *idlm.Struct) int64 {
	m := int64(0)
	for _, f := range s.Fields {
		if f.ID > m {
			m = f.ID
		}
	}
	return m
}

// applyEdits mutates the program into its next version and returns what a
// breaking-change linter has to say about it, by construction.
func applyEdits(p *idlm.Program, r *core.Rand, n int) []c20Edit {
	var out []c20Edit
	counter := 0
	fresh := func(pfx string) string { counter++; return fmt.Sprintf("%sNew%d", pfx, counter) }
	touched := map[string]bool{} // "file/def/field" already edited
	for k := 0; k < n; k++ {
		f := p.Files[r.Intn(len(p.Files))]
		var structs []*idlm.Struct
		var svcs []*idlm.Service
		for _, d := range f.Defs {
			switch d := d.(type) {
			case *idlm.Struct:
				structs = append(structs, d)
			case *idlm.Service:
				svcs = append(svcs, d)
			}
		}
		switch op := r.Intn(14); {
		case op == 0 && len(svcs) > 0: // remove a service nobody extends
			s := svcs[r.Intn(len(svcs))]
			if isNew(s.Name) || isNew(f.Path) {
				continue
			}
			if referenced(p, s) || touched[f.Path+"/"+s.Name] || touched["method-of/"+f.Path+"/"+s.Name] {
				continue
			}
			var nd []idlm.Def
			for _, d := range f.Defs {
				if d != idlm.Def(s) {
					nd = append(nd, d)
				}
			}
			f.Defs = nd
			touched[f.Path+"/"+s.Name] = true
			out = append(out, c20Edit{"remove service " + s.Name + " from " + f.Path, []diag{{filepath.Base(f.Path), "service-removed", s.Name, f.Path}}})
		case op == 1 && len(svcs) > 0: // remove a method
			s := svcs[r.Intn(len(svcs))]
			if len(s.Funcs) == 0 || touched[f.Path+"/"+s.Name] || isNew(s.Name) || isNew(f.Path) {
				continue
			}
			i := r.Intn(len(s.Funcs))
			fn := s.Funcs[i]
			if isNew(fn.Name) {
				continue
			}
			s.Funcs = append(append([]*idlm.Function{}, s.Funcs[:i]...), s.Funcs[i+1:]...)
			touched["method-of/"+f.Path+"/"+s.Name] = true
			out = append(out, c20Edit{"remove method " + s.Name + "." + fn.Name, []diag{{f.Path, "method-removed", fn.Name + "," + s.Name, f.Path}}})
		case op == 2 && len(structs) > 0: // add a required field
			s := structs[r.Intn(len(structs))]
			if s.Kind == idlm.KUnion || maxFieldID(s) > 32000 || touched[f.Path+"/"+s.Name] || isNew(s.Name) || isNew(f.Path) {
				continue
			}
			id := maxFieldID(s) + int64(r.Range(1, 3))
			nf := &idlm.Field{ID: id, IDLit: strconv.FormatInt(id, 10), Req: idlm.ReqRequired, Name: fresh("req"), Type: &idlm.TypeRef{Kind: idlm.TBase, Base: idlm.BaseKind(r.Range(1, 8))}}
			s.Fields = cloneFieldList(s.Fields)
			pos := r.Intn(len(s.Fields) + 1)
			s.Fields = append(s.Fields[:pos], append([]*idlm.Field{nf}, s.Fields[pos:]...)...)
			touched["edited/"+f.Path+"/"+s.Name] = true
			out = append(out, c20Edit{"add required field " + s.Name + "." + nf.Name, []diag{{f.Path, "required-field-added", nf.Name + "," + s.Name, f.Path}}})
		case op == 3 && len(structs) > 0: // optional -> required
			s := structs[r.Intn(len(structs))]
			if s.Kind == idlm.KUnion || len(s.Fields) == 0 {
				continue
			}
			fl := s.Fields[r.Intn(len(s.Fields))]
			key := f.Path + "/" + s.Name + "/" + fl.Name
			if isNew(s.Name) || isNew(fl.Name) || isNew(f.Path) {
				continue
			}
			if fl.Req != idlm.ReqOptional || fl.Default != nil || touched[key] || touched[f.Path+"/"+s.Name] {
				continue
			}
			// a required field must stay escapable: only for fields that do not lead to struct-like types
			if rt := fl.Type.Root(); rt.Kind == idlm.TNamed {
				if _, isStruct := rt.Target.(*idlm.Struct); isStruct {
					continue
				}
			}
			nf := *fl
			nf.Req = idlm.ReqRequired
			replaceField(s, fl, &nf)
			touched[key] = true
			touched["edited/"+f.Path+"/"+s.Name] = true
			out = append(out, c20Edit{"optional to required " + s.Name + "." + fl.Name, []diag{{f.Path, "optional-to-required", fl.Name + "," + s.Name, f.Path}}})
		case op == 4 && len(structs) > 0: // change a field's type name
			s := structs[r.Intn(len(structs))]
			if len(s.Fields) == 0 {
				continue
			}
			fl := s.Fields[r.Intn(len(s.Fields))]
			key := f.Path + "/" + s.Name + "/" + fl.Name
			if isNew(s.Name) || isNew(fl.Name) || isNew(f.Path) {
				continue
			}
			if fl.Default != nil || touched[key] || touched[f.Path+"/"+s.Name] {
				continue
			}
			nt := &idlm.TypeRef{Kind: idlm.TBase, Base: idlm.BaseKind(r.Range(1, 8))}
			if r.Bool() {
				nt = &idlm.TypeRef{Kind: idlm.TList, Elem: nt}
			}
			if thriftName(nt) == thriftName(fl.Type) {
				continue
			}
			nf := *fl
			nf.Type = nt
			exp := []diag{{f.Path, "field-type-changed", fl.Name + "," + s.Name, f.Path}}
			desc := fmt.Sprintf("change type of %s.%s from %s to %s", s.Name, fl.Name, thriftName(fl.Type), thriftName(nt))
			if s.Kind != idlm.KUnion && fl.Req == idlm.ReqOptional && r.Chance(1, 3) {
				// the same field also becomes required in the same commit: two findings
				nf.Req = idlm.ReqRequired
				exp = append(exp, diag{f.Path, "optional-to-required", fl.Name + "," + s.Name, f.Path})
				desc += " and make it required"
			}
			replaceField(s, fl, &nf)
			touched[key] = true
			touched["edited/"+f.Path+"/"+s.Name] = true
			out = append(out, c20Edit{desc, exp})
		case op == 11 && len(structs) > 0: // change a field's type NAME to a new alias of the very same type
			s := structs[r.Intn(len(structs))]
			if len(s.Fields) == 0 {
				continue
			}
			fl := s.Fields[r.Intn(len(s.Fields))]
			key := f.Path + "/" + s.Name + "/" + fl.Name
			if isNew(s.Name) || isNew(fl.Name) || isNew(f.Path) || fl.Default != nil || touched[key] || touched[f.Path+"/"+s.Name] {
				continue
			}
			if fl.Type.Kind == idlm.TNamed {
				if _, isStruct := fl.Type.Root().Target.(*idlm.Struct); isStruct {
					continue // keep required-field escapability reasoning simple
				}
			}
			td := &idlm.Typedef{Name: fresh("Alias"), Type: fl.Type}
			f.Defs = append(append([]idlm.Def{}, f.Defs...), td)
			nf := *fl
			nf.Type = &idlm.TypeRef{Kind: idlm.TNamed, Name: td.Name, Target: td, TFile: f}
			replaceField(s, fl, &nf)
			touched[key] = true
			touched["edited/"+f.Path+"/"+s.Name] = true
			out = append(out, c20Edit{fmt.Sprintf("change type name of %s.%s from %s to its new alias %s", s.Name, fl.Name, thriftName(fl.Type), td.Name), []diag{{f.Path, "field-type-changed", fl.Name + "," + s.Name, f.Path}}})
		case op == 5 && len(structs) > 0: // compatible: add an optional field
			s := structs[r.Intn(len(structs))]
			if maxFieldID(s) > 32000 {
				continue
			}
			id := maxFieldID(s) + 1
			nf := &idlm.Field{ID: id, IDLit: strconv.FormatInt(id, 10), Req: idlm.ReqOptional, Name: fresh("opt"), Type: &idlm.TypeRef{Kind: idlm.TBase, Base: idlm.BString}}
			s.Fields = append(cloneFieldList(s.Fields), nf)
			out = append(out, c20Edit{"add optional field " + s.Name + "." + nf.Name, nil})
		case op == 6 && len(svcs) > 0: // compatible: add a method
			s := svcs[r.Intn(len(svcs))]
			if touched[f.Path+"/"+s.Name] {
				continue
			}
			s.Funcs = append(append([]*idlm.Function{}, s.Funcs...), &idlm.Function{Name: fresh("fn")})
			out = append(out, c20Edit{"add method to " + s.Name, nil})
		case op == 7: // compatible: add a service / struct / enum / constant
			switch r.Intn(4) {
			case 0:
				f.Defs = append(append([]idlm.Def{}, f.Defs...), &idlm.Service{Name: fresh("Svc"), Funcs: []*idlm.Function{{Name: "ping"}}})
			case 1:
				f.Defs = append(append([]idlm.Def{}, f.Defs...), &idlm.Struct{Kind: idlm.KStruct, Name: fresh("St"), Fields: []*idlm.Field{{ID: 1, IDLit: "1", Req: idlm.ReqRequired, Name: "must", Type: &idlm.TypeRef{Kind: idlm.TBase, Base: idlm.BI32}}}})
			case 2:
				f.Defs = append(append([]idlm.Def{}, f.Defs...), &idlm.Enum{Name: fresh("En"), Items: []*idlm.EnumItem{{Name: "A"}}})
			default:
				f.Defs = append(append([]idlm.Def{}, f.Defs...), &idlm.Constant{Name: fresh("kc"), Type: &idlm.TypeRef{Kind: idlm.TBase, Base: idlm.BI32}, Value: &idlm.Const{Kind: idlm.CInt, Int: 7, Lit: "7"}})
			}
			out = append(out, c20Edit{"add a definition to " + f.Path, nil})
		case op == 8: // compatible: reorder definitions and fields
			perm := r.Perm(len(f.Defs))
			nd := make([]idlm.Def, len(f.Defs))
			for a, b := range perm {
				nd[a] = f.Defs[b]
			}
			f.Defs = nd
			for _, s := range structs {
				pf := r.Perm(len(s.Fields))
				nf := make([]*idlm.Field, len(s.Fields))
				for a, b := range pf {
					nf[a] = s.Fields[b]
				}
				s.Fields = nf
			}
			out = append(out, c20Edit{"reorder definitions and fields of " + f.Path, nil})
		case op == 9 && len(structs) > 0: // remove an unreferenced struct: not a documented breaking change
			s := structs[r.Intn(len(structs))]
			if referenced(p, s) || touched[f.Path+"/"+s.Name] || touched["edited/"+f.Path+"/"+s.Name] {
				continue
			}
			constUses := false
			for _, pf := range p.Files {
				for _, d := range pf.Defs {
					if c, ok := d.(*idlm.Constant); ok && c.Type.Root().Kind == idlm.TNamed && c.Type.Root().Target == idlm.Def(s) {
						constUses = true
					}
				}
			}
			if constUses {
				continue
			}
			var nd []idlm.Def
			for _, d := range f.Defs {
				if d != idlm.Def(s) {
					nd = append(nd, d)
				}
			}
			f.Defs = nd
			touched[f.Path+"/"+s.Name] = true
			out = append(out, c20Edit{"remove unreferenced struct " + s.Name, nil})
		case op == 10: // compatible: a new file, included
			nf := &idlm.File{Path: filepath.Dir(f.Path) + "/" + strings.ToLower(fresh("added")) + ".thrift"}
			nf.Defs = []idlm.Def{&idlm.Struct{Kind: idlm.KStruct, Name: "Fresh", Fields: []*idlm.Field{{ID: 1, IDLit: "1", Req: idlm.ReqRequired, Name: "a", Type: &idlm.TypeRef{Kind: idlm.TBase, Base: idlm.BI32}}}},
				&idlm.Service{Name: "FreshSvc", Funcs: []*idlm.Function{{Name: "f"}}}}
			p.Files = append(p.Files, nf)
			f.Headers = append(append([]*idlm.Header{}, f.Headers...), &idlm.Header{Kind: "include", Path: "./" + filepath.Base(nf.Path), Target: nf})
			out = append(out, c20Edit{"add file " + nf.Path + " included by " + f.Path, nil})
		default:
			continue
		}
	}
	return out
}

// isNew: names created by this edit script (they did not exist in the previous version).
func isNew(name string) bool {
	return strings.Contains(name, "New") || strings.Contains(name, "Fresh") || strings.Contains(name, "addednew")
}

func replaceField(s *idlm.Struct, old, nw *idlm.Field) {
	nf := cloneFieldList(s.Fields)
	for i := range nf {
		if nf[i] == old {
			nf[i] = nw
		}
	}
	s.Fields = nf
}

func thriftName(t *idlm.TypeRef) string {
	switch t.Kind {
	case idlm.TBase:
		if t.Base == idlm.BI8 {
			return "byte"
		}
		return idlm.BaseNames[t.Base]
	case idlm.TList:
		return "list<" + thriftName(t.Elem) + ">"
	case idlm.TSet:
		return "set<" + thriftName(t.Elem) + ">"
	case idlm.TMap:
		return "map<" + thriftName(t.Key) + ", " + thriftName(t.Elem) + ">"
	}
	return t.Target.DefName()
}

func c20(r *core.Run) {
	bin := r.GoBuildRepo("thriftbreak", "go.uber.org/thriftrw/cmd/thriftbreak")
	n := r.Pick(600, 8000)
	type job struct{ i int }
	work := make(chan job)
	var wg sync.WaitGroup
	for w := 0; w < runtime.NumCPU(); w++ {
		wg.Add(1)
		go func() {
			defer wg.Done()
			for j := range work {
				runC20(r, bin, j.i)
			}
		}()
	}
	for i := 0; i < n; i++ {
		if r.Replay && uint64(i) != r.ReplayIndex {
			continue
		}
		work <- job{i}
	}
	close(work)
	wg.Wait()
	if !r.Replay {
		r.Require("repositories", 50)
		r.Require("repositories_with_breaking_edits", 20)
		r.Require("repositories_without_breaking_edits", 10)
		r.Require("diagnostics_expected", 30)
	}
	r.Assumption("expected diagnostics come from the edit script applied to the model, not from diffing compiled modules; messages are compared by documented kind, file and the quoted definition names (service removal by base name, as the tool documents)")
	r.Assumption("edits whose classification the documentation does not fix (renames, id changes, required -> optional, file renames) are not generated")
	r.FinishStd("scratch git repositories (git CLI) whose HEAD~ and HEAD are two versions of a generated multi-file program related by a random edit script of breaking edits (remove service / method, add required field, optional -> required, change field type name) and compatible edits (add optional field / method / definitions / included file, reorder, remove unreferenced struct, identical version); the real thriftbreak binary is run in readable and JSON mode, three times each; multiset of (file, kind, names) and exit status must equal what the script implies. distinct by (version texts)", "repositories")
}

func gitCmd(dir string, args ...string) error {
	cmd := exec.Command("git", args...)
	cmd.Dir = dir
	cmd.Env = append(os.Environ(), "GIT_AUTHOR_NAME=v", "GIT_AUTHOR_EMAIL=v@example.com", "GIT_COMMITTER_NAME=v", "GIT_COMMITTER_EMAIL=v@example.com", "GIT_CONFIG_GLOBAL=/dev/null", "GIT_CONFIG_SYSTEM=/dev/null")
	out, err := cmd.CombinedOutput()
	if err != nil {
		return fmt.Errorf("git %v: %v: %s", args, err, out)
	}
	return nil
}

func runC20(r *core.Run, bin string, i int) {
	rng := core.NewRand(r.Seed, "c20", uint64(i))
	o := idlm.SemOpts{MaxFiles: 3, MaxDefs: 6, Services: true, // no constants/defaults: a struct literal elsewhere would stop compiling when a required field is added
		Dirs: rng.Bool(), ForGen: true, ServiceBias: true}
	p := idlm.GenProgram(rng, o)
	dir := filepath.Join(r.Scratch, fmt.Sprintf("repo-%d", i))
	defer os.RemoveAll(dir)
	os.MkdirAll(dir, 0o755)
	write := func() map[string]string {
		p.RenderAll(rng, idlm.PlainLayout)
		m := map[string]string{}
		for _, f := range p.Files {
			full := filepath.Join(dir, f.Path)
			os.MkdirAll(filepath.Dir(full), 0o755)
			os.WriteFile(full, []byte(f.Text), 0o644)
			m[f.Path] = f.Text
		}
		return m
	}
	// a byte-identical twin of one file under another name, in both versions:
	// identical definitions edited identically in two files of one commit
	var twinOf *idlm.File
	twinPath := ""
	if rng.Chance(1, 3) {
		twinOf = p.Files[rng.Intn(len(p.Files))]
		twinPath = filepath.Dir(twinOf.Path) + "/twin_" + filepath.Base(twinOf.Path)
	}
	writeTwin := func(m map[string]string) {
		if twinOf != nil {
			os.WriteFile(filepath.Join(dir, twinPath), []byte(m[twinOf.Path]), 0o644)
			m[twinPath] = m[twinOf.Path]
		}
	}
	v1 := write()
	writeTwin(v1)
	// a free-standing file (includes nothing, included by nothing) that the
	// second commit renames or deletes
	extra, extraOld, extraNew, extraText := "", "", "", ""
	var extraWant []diag
	switch rng.Intn(10) {
	case 0:
		extra, extraText = "rename a file without services (content unchanged)", "struct OnlyData {\n  1: optional i32 x\n}\n\nenum Kind {\n  A\n  B\n}\n"
	case 1:
		extra, extraText = "delete a file without services", "struct OnlyData {\n  1: optional i32 x\n}\n"
	case 2:
		extra, extraText = "delete a file with two services", "struct D {\n  1: optional i32 x\n}\n\nservice Gone {\n  void f()\n}\n\nservice GoneToo {\n}\n"
		extraWant = []diag{{"extra_old.thrift", "service-removed", "Gone", ""}, {"extra_old.thrift", "service-removed", "GoneToo", ""}}
	}
	if extra != "" {
		d0 := filepath.Dir(p.Files[0].Path)
		extraOld, extraNew = d0+"/extra_old.thrift", d0+"/extra_new.thrift"
		os.MkdirAll(filepath.Join(dir, d0), 0o755)
		os.WriteFile(filepath.Join(dir, extraOld), []byte(extraText), 0o644)
		v1[extraOld] = extraText
	}
	if err := gitCmd(dir, "init", "-q"); err != nil {
		r.Inconclusive("%v", err)
		return
	}
	gitCmd(dir, "add", "-A")
	if err := gitCmd(dir, "commit", "-q", "-m", "v1"); err != nil {
		r.Inconclusive("%v", err)
		return
	}
	nEdits := rng.Intn(5)
	if rng.Chance(1, 8) {
		nEdits = 0 // identical versions
	}
	edits := applyEdits(p, rng, nEdits*2)
	v2 := write()
	writeTwin(v2)
	if extra != "" {
		if strings.HasPrefix(extra, "rename") {
			gitCmd(dir, "mv", extraOld, extraNew)
			v2[extraNew] = extraText
		} else {
			gitCmd(dir, "rm", "-q", extraOld)
		}
		r.Add("repositories_with_renamed_or_deleted_file", 1)
	}
	// files deleted from the model do not occur; make the commit even when nothing changed
	gitCmd(dir, "add", "-A")
	if err := gitCmd(dir, "commit", "-q", "--allow-empty", "-m", "v2"); err != nil {
		r.Inconclusive("%v", err)
		return
	}
	var want []string
	var descs []string
	for _, e := range edits {
		descs = append(descs, e.desc)
		for _, d := range e.exp {
			want = append(want, d.String())
			if twinOf != nil && (d.file == twinOf.Path || d.kind == "service-removed" && d.full == twinOf.Path) {
				t := d
				t.file = twinPath
				if d.kind == "service-removed" {
					t.file = filepath.Base(twinPath)
				}
				want = append(want, t.String())
			}
		}
	}
	if extra != "" {
		descs = append(descs, extra)
		for _, d := range extraWant {
			want = append(want, d.String())
		}
	}
	sort.Strings(want)
	r.Add("repositories", 1)
	r.Add("diagnostics_expected", int64(len(want)))
	if len(want) > 0 {
		r.Add("repositories_with_breaking_edits", 1)
	} else {
		r.Add("repositories_without_breaking_edits", 1)
	}
	det := func(extra map[string]any) map[string]any {
		d := map[string]any{"edits": descs, "expected": want, "v1": v1, "v2": v2}
		for k, v := range extra {
			d[k] = v
		}
		return d
	}
	for rep := 0; rep < 3; rep++ {
		for _, mode := range []string{"text", "json"} {
			args := []string{"-C", dir}
			if mode == "json" {
				args = append(args, "--json")
			}
			cmd := exec.Command(bin, args...)
			var so, se bytes.Buffer
			cmd.Stdout, cmd.Stderr = &so, &se
			err := cmd.Run()
			exit := 0
			if err != nil {
				exit = 1
			}
			if strings.Contains(se.String(), "panic:") {
				r.Violate(core.Violation{Stream: "c20", Index: uint64(i), What: "thriftbreak panicked", Detail: det(map[string]any{"stderr": tailStr(se.String(), 1500)})})
				return
			}
			var got []string
			bad := ""
			for _, line := range strings.Split(strings.TrimSpace(so.String()), "\n") {
				if line == "" {
					continue
				}
				file, msg := "", ""
				if mode == "json" {
					var o struct{ FilePath, Message string }
					if json.Unmarshal([]byte(line), &o) != nil {
						bad = "unparsable JSON line: " + line
						break
					}
					file, msg = o.FilePath, o.Message
				} else {
					k := strings.Index(line, ":")
					if k < 0 {
						bad = "line without file prefix: " + line
						break
					}
					file, msg = line[:k], line[k+1:]
				}
				d, ok := parseDiag(file, msg)
				if !ok {
					bad = "diagnostic of no documented kind: " + line
					break
				}
				got = append(got, d.String())
			}
			if bad != "" {
				r.Inconclusive("repository %d: %s", i, bad)
				return
			}
			sort.Strings(got)
			if strings.Join(got, "\n") != strings.Join(want, "\n") {
				if exit != 0 && len(got) == 0 && !strings.Contains(se.String(), "found") {
					// the tool failed for another reason (e.g. could not compile a version)
					r.Violate(core.Violation{Stream: "c20", Index: uint64(i), Sig: "tool-error", What: "thriftbreak failed without diagnostics: " + headStr(se.String(), 300), Detail: det(map[string]any{"stderr": tailStr(se.String(), 1500)})})
					return
				}
				r.Violate(core.Violation{Stream: "c20", Index: uint64(i), What: fmt.Sprintf("reported diagnostics differ from what the edits imply (%s mode, run %d): expected %v, got %v", mode, rep, want, got), Detail: det(map[string]any{"got": got, "stdout": tailStr(so.String(), 1500)})})
				return
			}
			if (exit != 0) != (len(want) > 0) {
				r.Violate(core.Violation{Stream: "c20", Index: uint64(i), What: fmt.Sprintf("exit status %d with %d diagnostics", exit, len(want)), Detail: det(map[string]any{"stderr": tailStr(se.String(), 800)})})
				return
			}
			r.Add("runs", 1)
		}
	}
	var key []byte
	for _, f := range p.Files {
		key = append(key, v1[f.Path]...)
		key = append(key, v2[f.Path]...)
	}
	r.AddDistinct(core.HashBytes(key))
	if i%29 == 0 {
		r.Sample(map[string]any{"repository": i, "files": len(p.Files), "edits": descs, "expected_diagnostics": want})
	}
}
