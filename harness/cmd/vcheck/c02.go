package main

import (
	"time"

	"verif/harness/core"
)

func init() {
	checks["C02"] = c02
	checks["C03"] = c03
}

func c02(r *core.Run) {
	bin := r.GoBuild("vchild", "./cmd/vchild")
	run := func(bin, stream string, n uint64, prefix string) {
		r.RunChildren(core.ChildSpec{Bin: bin, Monitor: "c02", Stream: stream, From: 0, To: n, Prefix: prefix, Timeout: 15 * time.Minute})
	}
	run(bin, "exh", 60000, "") // larger than the family; the child stops at its end
	run(bin, "rand", uint64(r.Pick(1500000, 20000000)), "")
	run(bin, "wide", uint64(r.Pick(60000, 1000000)), "")
	run(bin, "deep", uint64(r.Pick(40000, 800000)), "")
	run(bin, "big", uint64(r.Pick(400, 8000)), "")
	run(bin, "binlen", 8400, "")
	run(bin, "bigpair", uint64(r.Pick(24, 400)), "")
	run(bin, "long", uint64(r.Pick(6000, 200000)), "")
	// the unsafe string/slice conversions once more under checkptr
	cp := r.GoBuild("vchild-checkptr", "./cmd/vchild", "-gcflags=all=-d=checkptr")
	run(cp, "rand", uint64(r.Pick(40000, 800000)), "checkptr_")
	run(cp, "big", uint64(r.Pick(60, 1000)), "checkptr_")
	run(cp, "long", uint64(r.Pick(600, 20000)), "checkptr_")
	r.Set("exhaustive_subspace", "stream exh: the complete SmallShapes family (all leaves over a boundary set, all depth-1 containers with <=2 elements, all depth-2 containers with <=2 elements over a reduced depth-1 family); stream binlen: every binary length 0..4199; the random streams are not exhaustive")
	r.Set("exhaustive", false)
	r.Require("cases", 1000)
	r.Require("checkptr_cases", 100)
	for _, k := range []string{"chunk_whole", "chunk_one-byte", "chunk_fixed-k", "chunk_random", "chunk_zero-length-interleaved", "chunk_first-read-1"} {
		r.Require(k, 1)
	}
	r.Assumption("refcodec (written from the Thrift binary protocol spec, no thriftrw imports) is the reference encoding")
	r.FinishStd("random and enumerated well-typed wire trees; each is encoded by binary.Default.Encode and by the StreamWriter call sequence (must equal the refcodec bytes), decoded by the random-access decoder at offset 0 and k with forcing and by the stream reader under one of 7 read-segmentation classes (whole, one byte, fixed k, random, zero-length reads interleaved, first read 1 byte, io.EOF delivered with the last bytes) and over a ReaderAt that reports io.EOF with the last bytes (must equal the tree bit-for-bit, consuming exactly the encoding); non-trivial = encoding of >= 4 bytes, distinct by (type, bytes)", "cases")
}

func c03(r *core.Run) {
	bin := r.GoBuild("vchild", "./cmd/vchild")
	hm := uint64(0)
	if !r.Quick() {
		hm = 15 // count distinct over a 1/16 hash sample to bound memory
	}
	run := func(bin, stream string, n uint64, prefix string, to time.Duration) {
		r.RunChildren(core.ChildSpec{Bin: bin, Monitor: "c03", Stream: stream, From: 0, To: n, Prefix: prefix, Timeout: to, HMask: hm})
	}
	run(bin, "uniform", uint64(r.Pick(3000000, 40000000)), "", 20*time.Minute)
	run(bin, "evil", uint64(r.Pick(3000000, 40000000)), "", 20*time.Minute)
	run(bin, "mutate", uint64(r.Pick(3000000, 40000000)), "", 20*time.Minute)
	run(bin, "trunc", uint64(r.Pick(6000, 100000)), "", 20*time.Minute)
	run(bin, "deep", uint64(r.Pick(48, 480)), "", 30*time.Minute)
	cp := r.GoBuild("vchild-checkptr", "./cmd/vchild", "-gcflags=all=-d=checkptr")
	run(cp, "evil", uint64(r.Pick(60000, 1000000)), "checkptr_", 20*time.Minute)
	run(cp, "mutate", uint64(r.Pick(60000, 1000000)), "checkptr_", 20*time.Minute)
	r.Require("cases", 10000)
	r.Require("accepted", 1000)
	r.Require("rejected", 1000)
	r.Require("trunc_bases", 100)
	r.Set("exhaustive_subspace", "stream trunc: every truncation offset of each base encoding")
	r.Set("distinct_hash_sampling", hm+1)
	r.Assumption("inputs are at most ~1 MiB; nesting deeper than 10^5 levels is not explored (any recursive decoder exhausts the goroutine stack near 10^7)")
	r.Assumption("a hang is decided by a 20-30 minute per-child watchdog and confirmed by re-running the case alone")
	r.FinishStd("byte strings (uniform, grammar-aware evil encodings, byte-level mutations of valid encodings, every truncation offset, nesting to depth 10^5) x requested wire type (valid and invalid codes) x random-access decoder (offset 0 or k, every lazy container forced) and stream decoder under a random chunking class; success => thriftrw's own encoder reproduces the consumed prefix and Skip (seekable and not) consumes the same count; the two decoders agree; non-trivial = input >= 4 bytes and (accepted container/binary/struct type, or rejected), distinct by (type, bytes)", "cases")
}
