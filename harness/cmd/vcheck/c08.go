package main

import (
	"time"

	"verif/harness/core"
)

func init() { checks["C08"] = c08 }

func c08(r *core.Run) {
	bin := r.GoBuild("vchild", "./cmd/vchild")
	run := func(stream string, n uint64) {
		// a fatal stack overflow or a hang kills the child; the runner then
		// isolates the killing case in a fresh process and reports it
		r.RunChildren(core.ChildSpec{Bin: bin, Monitor: "c08", Stream: stream, From: 0, To: n, Timeout: 15 * time.Minute})
	}
	run("cycles", uint64(r.Pick(60*6, 60*200)))
	run("wrongkind", uint64(r.Pick(57*2, 57*20)))
	run("deep", uint64(r.Pick(32, 400)))
	run("valid", uint64(r.Pick(1200, 40000)))
	run("tokmut", uint64(r.Pick(6000, 300000)))
	run("bytes", uint64(r.Pick(20000, 2000000)))
	r.Require("cases", 5000)
	r.Require("outcome_generate_ok", 100)
	r.Require("outcome_compile_error", 1000)
	r.Set("exhaustive_subspace", "stream cycles: 12 cycle kinds (typedef, constant, constant<->struct default, struct default nesting, service inheritance, include loop, self include, required struct nesting, union/exception nesting, typedef/struct/constant knot, struct default containing its own struct inside a container, service inheritance across an include loop) x lengths 1..5; stream wrongkind: a fixed list of 57 wrong-kind references, bad annotations and Go-level name clashes")
	r.Assumption("'never fails to terminate' is decided by a 15-minute per-child watchdog plus reproduction of the case alone; panics and fatal errors by child exit status")
	r.FinishStd("file sets: random bytes, token-mutated valid multi-file programs, valid programs with go.* annotations, every reference-cycle kind x length 1..5, wrong-kind references and bad annotations, nesting depth to 250 (deeper nesting terminates but costs super-linear time: depth 2000 took 40-390 s per file, observed, not a verdict); each is run through compile.Compile (strict and NonStrict) and, when that succeeds, gen.Generate, in a child process; every run must end with a result or an error. non-trivial = file set > 20 bytes, distinct by content", "cases")
}
