package main

import (
	"encoding/json"
	"fmt"
	"os"
	"path/filepath"
	"sort"
	"strconv"
	"strings"

	"verif/harness/core"
	"verif/harness/genlab"
	"verif/harness/idlm"
)

func init() { checks["C19"] = c19 }

// The request as the plugin dumped it (own declarations: the orchestrator
// links nothing of thriftrw).
type apiType struct {
	SimpleType        *string      `json:"simpleType"`
	SliceType         *apiType     `json:"sliceType"`
	KeyValueSliceType *apiTypePair `json:"keyValueSliceType"`
	MapType           *apiTypePair `json:"mapType"`
	ReferenceType     *struct {
		Name       string `json:"name"`
		ImportPath string `json:"importPath"`
	} `json:"referenceType"`
	PointerType *apiType `json:"pointerType"`
}
type apiTypePair struct {
	Left        *apiType          `json:"left"`
	Right       *apiType          `json:"right"`
	Annotations map[string]string `json:"annotations"`
}
type apiArg struct {
	Name string   `json:"name"`
	Type *apiType `json:"type"`
}
type apiFunc struct {
	Name       string   `json:"name"`
	ThriftName string   `json:"thriftName"`
	Arguments  []apiArg `json:"arguments"`
	ReturnType *apiType `json:"returnType"`
	Exceptions []apiArg `json:"exceptions"`
	OneWay     *bool    `json:"oneWay"`
}
type apiService struct {
	Name       string    `json:"name"`
	ThriftName string    `json:"thriftName"`
	ParentID   *int      `json:"parentID"`
	Functions  []apiFunc `json:"functions"`
	ModuleID   int       `json:"moduleID"`
}
type apiModule struct {
	ImportPath     string `json:"importPath"`
	Directory      string `json:"directory"`
	ThriftFilePath string `json:"thriftFilePath"`
}
type apiRequest struct {
	RootServices  []int                 `json:"rootServices"`
	Services      map[string]apiService `json:"services"`
	Modules       map[string]apiModule  `json:"modules"`
	PackagePrefix string                `json:"packagePrefix"`
	ThriftRoot    string                `json:"thriftRoot"`
	RootModules   []int                 `json:"rootModules"`
}

func shapeOf(t *apiType) string {
	switch {
	case t == nil:
		return "nil"
	case t.SimpleType != nil:
		return strings.ToLower(*t.SimpleType)
	case t.SliceType != nil:
		return "[]" + shapeOf(t.SliceType)
	case t.KeyValueSliceType != nil:
		return "kv[" + shapeOf(t.KeyValueSliceType.Left) + "]" + shapeOf(t.KeyValueSliceType.Right)
	case t.MapType != nil:
		s := "map[" + shapeOf(t.MapType.Left) + "]" + shapeOf(t.MapType.Right)
		if t.MapType.Annotations["go.type"] != "" {
			s += "(go.type=" + t.MapType.Annotations["go.type"] + ")"
		}
		return s
	case t.ReferenceType != nil:
		return "ref"
	case t.PointerType != nil:
		return "*" + shapeOf(t.PointerType)
	}
	return "empty-union"
}

// goNameOf is the documented Go name in the SAFE vocabulary.
func goNameOf(name string, ann []idlm.Ann) string {
	for _, a := range ann {
		if a.Name == "go.name" && a.HasValue {
			return a.Value
		}
	}
	if name == "" {
		return name
	}
	return strings.ToUpper(name[:1]) + name[1:]
}

func c19(r *core.Run) {
	thriftrw := r.GoBuildRepo("thriftrw", "go.uber.org/thriftrw")
	r.GoBuild("thriftrw-plugin-verifassert", "./cmd/thriftrw-plugin-verifassert")
	genlab.PluginDir = r.Scratch
	shapes := map[string]bool{}
	per := uint64(r.Pick(60, 300))

	afterBuild = func(b *genlab.Batch, pr *genlab.Prog) {
		report := func(what, sig string, extra map[string]any) {
			d := map[string]any{"files": pr.Files(), "cli_options": pr.CLI.String(), "program": pr.Index}
			for k, v := range extra {
				d[k] = v
			}
			r.Violate(core.Violation{Stream: pr.Stream, Index: pr.Index, What: what, Sig: sig, Detail: d})
		}
		r.Add("cases", 1)
		if strings.Contains(pr.GenOut, "panic:") || strings.Contains(pr.GenOut, "fatal error:") {
			report("thriftrw crashed with the plugin attached: "+genlab.ErrorClass(pr.GenOut), "crash", map[string]any{"output": tailStr(pr.GenOut, 3000)})
			return
		}
		if !pr.GenOK {
			if strings.Contains(pr.GenOut, "unable to lookup module ID") {
				// the request is built in every run, plugin or not: this is its construction failing
				r.Add("request_construction_failed", 1)
				report("the plugin request cannot be built for a valid program (a module id does not resolve): "+genlab.ErrorClass(pr.GenOut), "request:construct", map[string]any{"output": tailStr(pr.GenOut, 2000)})
				return
			}
			if ok, _ := b.ProbeWithoutPlugin(thriftrw, pr); ok {
				r.Add("rejected_only_with_plugin", 1)
				report("a program that generates fine without a plugin is rejected when a plugin is attached: "+genlab.ErrorClass(pr.GenOut), "pluginreject:"+genlab.ErrorClass(pr.GenOut), map[string]any{"output": tailStr(pr.GenOut, 2000)})
			} else {
				r.Add("programs_rejected_even_without_plugin", 1) // C06's business
			}
			return
		}
		if !pr.BuildOK {
			var lines []string
			for _, l := range strings.Split(pr.Build, "\n") {
				if strings.Contains(l, "verifassert_") {
					lines = append(lines, l)
				}
			}
			if len(lines) > 0 {
				r.Add("assertion_files_not_compiling", 1)
				cls := genlab.ErrorClass(lines[0])
				report("the Go type formatted from the plugin type description differs from the generated code (assertion does not compile): "+strings.TrimSpace(lines[0]), "assert:"+cls, map[string]any{"compiler": tailStr(strings.Join(lines, "\n"), 3000), "assertion_sources": assertionSources(b.OutDir(pr))})
			} else {
				r.Add("programs_not_compiling_outside_assertions", 1) // C06's business
			}
			return
		}
		r.Add("programs_with_assertions_compiled", 1)
		checkRequests(r, b, pr, report, shapes)
	}
	defer func() { afterBuild = nil }()

	runDrivers(r, thriftrw, "plug", uint64(r.Pick(200, 2000)), 40, nil, nil, []driverMon{
		{name: "c19", cases: func(t, c, f int) uint64 { return uint64(f) * per }},
	})
	r.Set("distinct_type_description_shapes", int64(len(shapes)))
	var sh []string
	for s := range shapes {
		sh = append(sh, s)
	}
	sort.Strings(sh)
	if len(sh) > 60 {
		sh = sh[:60]
	}
	r.Sample(map[string]any{"type_description_shapes_seen": sh})
	if !r.Replay {
		r.Require("programs_with_assertions_compiled", 20)
		r.Require("functions_asserted", 100)
		r.Require("arguments_and_exceptions_asserted", 200)
		r.Require("distinct_type_description_shapes", 15)
		r.Require("requests_checked", 20)
		r.Require("c19_success_round_trips", 200)
		r.Require("c19_exception_round_trips", 100)
		r.Require("c19_undeclared_errors_refused", 200)
	}
	r.Set("evaluations", r.Get("functions_asserted")+r.Get("c19_cases"))
	r.Assumption("the Go compiler decides type identity: `var _ *T = &x.F` compiles iff the type of x.F is identical to T; the assertion source is produced by thriftrw's own plugin library (GoFileFromTemplate/formatType) inside a real plugin process spoken to by the real CLI")
	r.Assumption("SAFE naming vocabulary (Appendix A): Go names are go.name or the Thrift name with its first letter upper-cased")
	r.FinishStd("service-heavy valid programs (every type shape in parameters, returns and exceptions, typedefs, cross-module references, inheritance across files) generated by the real CLI with a real plugin attached, in recursive and per-module (--no-recurse) runs: (1) the plugin's assertion files must compile against the generated packages; (2) every dumped request must be self-consistent and agree with the model of the program (root services = services of the generated files, parents, module ids, names, import paths, directories, function signatures); (3) in the driver, Helper.Args/WrapResponse/UnwrapResponse/IsException must round-trip return values and declared exceptions and refuse plain errors and undeclared exception types. distinct by (function, case kind, value)", "c19_cases")
}

func assertionSources(dir string) map[string]string {
	out := map[string]string{}
	filepath.Walk(dir, func(p string, fi os.FileInfo, err error) error {
		if err == nil && !fi.IsDir() && strings.HasPrefix(filepath.Base(p), "verifassert_") && strings.HasSuffix(p, ".go") && len(out) < 6 {
			b, _ := os.ReadFile(p)
			rel, _ := filepath.Rel(dir, p)
			out[rel] = string(b)
		}
		return nil
	})
	return out
}

// checkRequests checks every request dumped for a program against the model.
func checkRequests(r *core.Run, b *genlab.Batch, pr *genlab.Prog, report func(what, sig string, extra map[string]any), shapes map[string]bool) {
	out := b.OutDir(pr)
	dumps, _ := filepath.Glob(filepath.Join(out, "verifassert_request_*.json"))
	type svcKey struct{ file, name string }
	model := map[svcKey]*idlm.Service{}
	fileOf := map[*idlm.Service]*idlm.File{}
	hasService := map[string]bool{}
	for _, f := range pr.P.Files {
		for _, d := range f.Defs {
			if s, ok := d.(*idlm.Service); ok {
				abs := filepath.Join(pr.SrcDir, f.Path)
				model[svcKey{abs, s.Name}] = s
				fileOf[s] = f
				hasService[abs] = true
			}
		}
	}
	wantRuns := 1
	if pr.CLI.PerModule {
		wantRuns = len(pr.P.Files)
	}
	if len(dumps) != wantRuns {
		// runs whose root modules are the same set overwrite each other: cannot happen with distinct files
		report(fmt.Sprintf("the plugin was handed %d requests in %d CLI runs", len(dumps), wantRuns), "request:count", nil)
		return
	}
	seenRoot := map[svcKey]int{}
	for _, dp := range dumps {
		raw, err := os.ReadFile(dp)
		var req apiRequest
		if err == nil {
			err = json.Unmarshal(raw, &req)
		}
		if err != nil {
			r.Inconclusive("cannot read request dump %s: %v", dp, err)
			continue
		}
		r.Add("requests_checked", 1)
		bad := func(what, sig string) {
			report("plugin request: "+what, "request:"+sig, map[string]any{"request": tailStr(string(raw), 6000)})
		}
		if req.PackagePrefix != pr.PkgBase {
			bad(fmt.Sprintf("packagePrefix %q, the CLI was given %q", req.PackagePrefix, pr.PkgBase), "prefix")
		}
		wantRoot := filepath.Join(pr.SrcDir, pr.ThriftRootRel())
		if filepath.Clean(req.ThriftRoot) != wantRoot {
			bad(fmt.Sprintf("thriftRoot %q, expected %q", req.ThriftRoot, wantRoot), "root")
		}
		modOK := func(id int) (apiModule, bool) {
			m, ok := req.Modules[strconv.Itoa(id)]
			return m, ok
		}
		// modules: path, directory and import path agree with what was written
		for id, m := range req.Modules {
			rel, err := filepath.Rel(wantRoot, m.ThriftFilePath)
			if err != nil || strings.HasPrefix(rel, "..") {
				bad(fmt.Sprintf("module %s: thriftFilePath %q is not under the thrift root", id, m.ThriftFilePath), "modpath")
				continue
			}
			wantDir := strings.TrimSuffix(rel, ".thrift")
			if filepath.Clean(m.Directory) != wantDir {
				bad(fmt.Sprintf("module %s (%s): directory %q, generated package is in %q", id, rel, m.Directory, wantDir), "moddir")
			}
			if m.ImportPath != pr.PkgBase+"/"+wantDir {
				bad(fmt.Sprintf("module %s (%s): importPath %q, generated package is %q", id, rel, m.ImportPath, pr.PkgBase+"/"+wantDir), "modimport")
			}
		}
		rootMods := map[string]bool{}
		for _, id := range req.RootModules {
			m, ok := modOK(id)
			if !ok {
				bad(fmt.Sprintf("root module id %d is not in modules", id), "rootmod-unresolved")
				continue
			}
			rootMods[m.ThriftFilePath] = true
			if gos, _ := filepath.Glob(filepath.Join(out, m.Directory, "*.go")); len(gos) == 0 {
				bad(fmt.Sprintf("root module %q: no Go file was generated in directory %q", m.ThriftFilePath, m.Directory), "rootmod-nodir")
			}
		}
		// which files does this run generate? The statement speaks about root
		// *services* only. For root modules the two documented readings ("the
		// files the CLI was called with", generate.go; "modules for which code
		// should be generated", api.thrift) are both accepted: the file given on
		// the command line must be a root module, and every root module must be
		// a file this run generates.
		generated := map[string]bool{}
		if pr.CLI.PerModule {
			// the run's own file: the one root module that is a file of the program
			for p := range rootMods {
				for _, f := range pr.P.Files {
					if filepath.Join(pr.SrcDir, f.Path) == p {
						generated[p] = true
					}
				}
			}
			if len(generated) != 1 {
				bad(fmt.Sprintf("a --no-recurse run names %d root modules that are files of the program, expected the one it was called with", len(generated)), "rootmod-count")
			}
		} else {
			for _, f := range pr.P.Files {
				generated[filepath.Join(pr.SrcDir, f.Path)] = true
			}
			if arg := filepath.Join(pr.SrcDir, pr.P.Files[0].Path); !rootMods[arg] {
				bad(fmt.Sprintf("the CLI was called with %q, which is not a root module", arg), "rootmod-missing")
			}
		}
		for p := range rootMods {
			if !generated[p] {
				bad(fmt.Sprintf("root module %q is not a file this run generates", p), "rootmod-extra")
			}
		}
		// services
		svcOK := func(id int) (apiService, bool) {
			s, ok := req.Services[strconv.Itoa(id)]
			return s, ok
		}
		keyOf := func(s apiService) (svcKey, bool) {
			m, ok := modOK(s.ModuleID)
			return svcKey{m.ThriftFilePath, s.ThriftName}, ok
		}
		byKey := map[svcKey]string{}
		for id, s := range req.Services {
			if k, ok := keyOf(s); ok {
				if other, dup := byKey[k]; dup {
					bad(fmt.Sprintf("service %s of %s is described twice (ids %s and %s)", k.name, k.file, other, id), "svc-duplicate")
				}
				byKey[k] = id
			}
		}
		for id, s := range req.Services {
			k, ok := keyOf(s)
			if !ok {
				bad(fmt.Sprintf("service %s (%s): module id %d is not in modules", id, s.ThriftName, s.ModuleID), "svc-module-unresolved")
				continue
			}
			ms := model[k]
			if ms == nil {
				bad(fmt.Sprintf("service %s: no service %q in %q", id, s.ThriftName, k.file), "svc-unknown")
				continue
			}
			if s.Name != goNameOf(ms.Name, nil) {
				bad(fmt.Sprintf("service %s: name %q, generated code uses %q", s.ThriftName, s.Name, goNameOf(ms.Name, nil)), "svc-name")
			}
			// parent chain
			if (s.ParentID != nil) != (ms.ParentSvc != nil) {
				bad(fmt.Sprintf("service %s: parentID present=%v, the service extends=%v", s.ThriftName, s.ParentID != nil, ms.ParentSvc != nil), "svc-parent-presence")
			} else if s.ParentID != nil {
				ps, ok := svcOK(*s.ParentID)
				if !ok {
					bad(fmt.Sprintf("service %s: parent id %d is not in services", s.ThriftName, *s.ParentID), "svc-parent-unresolved")
				} else if pk, ok := keyOf(ps); ok && model[pk] != ms.ParentSvc {
					bad(fmt.Sprintf("service %s: parent is %s of %s, the service extends %s", s.ThriftName, ps.ThriftName, pk.file, ms.ParentSvc.Name), "svc-parent-wrong")
				}
				seen := map[int]bool{}
				for cur, steps := s.ParentID, 0; cur != nil; steps++ {
					if seen[*cur] || steps > len(req.Services) {
						bad(fmt.Sprintf("service %s: parent chain is cyclic", s.ThriftName), "svc-parent-cycle")
						break
					}
					seen[*cur] = true
					nx, ok := svcOK(*cur)
					if !ok {
						break
					}
					cur = nx.ParentID
				}
			}
			// functions
			mf := map[string]*idlm.Function{}
			for _, fn := range ms.Funcs {
				mf[fn.Name] = fn
			}
			if len(s.Functions) != len(ms.Funcs) {
				bad(fmt.Sprintf("service %s: %d functions in the request, %d declared", s.ThriftName, len(s.Functions), len(ms.Funcs)), "fn-count")
			}
			for _, fn := range s.Functions {
				m := mf[fn.ThriftName]
				if m == nil {
					bad(fmt.Sprintf("service %s: function %q is not declared", s.ThriftName, fn.ThriftName), "fn-unknown")
					continue
				}
				if fn.Name != goNameOf(m.Name, nil) {
					bad(fmt.Sprintf("%s.%s: name %q, generated code uses %q", s.ThriftName, fn.ThriftName, fn.Name, goNameOf(m.Name, nil)), "fn-name")
				}
				if (fn.OneWay != nil && *fn.OneWay) != m.OneWay {
					bad(fmt.Sprintf("%s.%s: oneWay differs from the declaration", s.ThriftName, fn.ThriftName), "fn-oneway")
				}
				if (fn.ReturnType != nil) != (m.Return != nil) {
					bad(fmt.Sprintf("%s.%s: returnType present=%v, declared non-void=%v", s.ThriftName, fn.ThriftName, fn.ReturnType != nil, m.Return != nil), "fn-return")
				}
				if len(fn.Arguments) != len(m.Params) || len(fn.Exceptions) != len(m.Throws) {
					bad(fmt.Sprintf("%s.%s: %d arguments / %d exceptions, declared %d / %d", s.ThriftName, fn.ThriftName, len(fn.Arguments), len(fn.Exceptions), len(m.Params), len(m.Throws)), "fn-arity")
					continue
				}
				for i, a := range fn.Arguments {
					if a.Name != goNameOf(m.Params[i].Name, m.Params[i].Ann) {
						bad(fmt.Sprintf("%s.%s: argument %d is named %q, the args struct field is %q", s.ThriftName, fn.ThriftName, i, a.Name, goNameOf(m.Params[i].Name, m.Params[i].Ann)), "arg-name")
					}
					shapes[shapeOf(a.Type)] = true
				}
				for i, a := range fn.Exceptions {
					if a.Name != goNameOf(m.Throws[i].Name, m.Throws[i].Ann) {
						bad(fmt.Sprintf("%s.%s: exception %d is named %q, the result struct field is %q", s.ThriftName, fn.ThriftName, i, a.Name, goNameOf(m.Throws[i].Name, m.Throws[i].Ann)), "exc-name")
					}
					shapes[shapeOf(a.Type)] = true
				}
				if fn.ReturnType != nil {
					shapes["ret:"+shapeOf(fn.ReturnType)] = true
				}
			}
		}
		// root services are exactly the services of the files being generated
		roots := map[svcKey]bool{}
		for _, id := range req.RootServices {
			s, ok := svcOK(id)
			if !ok {
				bad(fmt.Sprintf("root service id %d is not in services", id), "rootsvc-unresolved")
				continue
			}
			k, ok := keyOf(s)
			if !ok {
				continue
			}
			if roots[k] {
				bad(fmt.Sprintf("root service %s of %s is listed twice", k.name, k.file), "rootsvc-twice")
			}
			roots[k] = true
			seenRoot[k]++
			r.Add("functions_asserted", int64(len(s.Functions)))
			for _, fn := range s.Functions {
				r.Add("arguments_and_exceptions_asserted", int64(len(fn.Arguments)+len(fn.Exceptions)))
			}
			if m, ok := modOK(s.ModuleID); ok {
				if _, err := os.Stat(filepath.Join(out, m.Directory, "verifassert_"+strings.ToLower(s.Name)+".go")); err != nil {
					r.Inconclusive("assertion file of root service %s is missing", s.Name)
				}
			}
		}
		for k := range model {
			if generated[k.file] && !roots[k] {
				bad(fmt.Sprintf("service %s of generated file %q is not a root service", k.name, k.file), "rootsvc-missing")
			}
		}
		for k := range roots {
			if !generated[k.file] {
				bad(fmt.Sprintf("root service %s belongs to %q, which this run does not generate", k.name, k.file), "rootsvc-extra")
			}
		}
	}
	for k := range model {
		if seenRoot[k] != 1 {
			report(fmt.Sprintf("plugin request: service %s of %q was a root service in %d runs, expected exactly 1", k.name, k.file, seenRoot[k]), "request:rootsvc-runs", nil)
		}
	}
}
