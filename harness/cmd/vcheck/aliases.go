package main

import "verif/harness/idlm"

type (
	idlmStruct   = idlm.Struct
	idlmEnum     = idlm.Enum
	idlmTypedef  = idlm.Typedef
	idlmConstant = idlm.Constant
	idlmService  = idlm.Service
)
