package main

import "verif/harness/core"

func init() { checks["C05"] = c05 }

func c05(r *core.Run) {
	thriftrw := r.GoBuildRepo("thriftrw", "go.uber.org/thriftrw")
	per := uint64(r.Pick(100, 500))
	// evolution: program 2k is the writer schema, 2k+1 the same program evolved
	runDrivers(r, thriftrw, "evo", uint64(r.Pick(160, 2400)), 40, nil, nil, []driverMon{
		{name: "c05", cases: func(t, c, f int) uint64 { return uint64(t) * per / 2 }},
	})
	// injection of foreign fields into encodings read by the same schema
	runDrivers(r, thriftrw, "safe", uint64(r.Pick(120, 1200)), 30, nil, nil, []driverMon{
		{name: "c05inject", cases: func(t, c, f int) uint64 { return uint64(t) * per / 2 }},
	})
	if !r.Replay {
		r.Require("c05_cases", 500)
		r.Require("c05_expected_accept", 200)
		r.Require("c05_expected_reject", 50)
		r.Require("c05_with_retyped_container_elements", 5)
		r.Require("c05inject_cases", 500)
		r.Require("c05inject_foreign_fields_injected", 1000)
	}
	r.Set("evaluations", r.Get("c05_cases")+r.Get("c05inject_cases"))
	r.Assumption("the reference reading semantics (idlm.Project): fields matched by id and wire type, last occurrence wins, everything else skipped, absent optional -> unset or declared default, required-without-default absent or mistyped -> failure, union must end with exactly one known member")
	r.Assumption("a container field whose ELEMENT wire type changed keeps its field-level type code; the statement does not call that mistyped: the reader may report it unset or empty, must not fail, and every other field must be exact")
	r.Assumption("injected foreign fields never repeat an (id, wire type) pair the reader declares")
	r.FinishStd("pairs (writer schema W, reader schema R = W after random evolution steps: add/remove field, change type incl. container element type, change requiredness, reorder, rename) generated and compiled as two programs; values of W encoded by the reference codec are decoded by R's generated code through both paths and compared with the reference projection onto R (accept/reject and value); plus foreign-field injection (unknown ids and declared ids with other wire types, any type, depth <= 4, up to 70 KB) at every struct level of valid encodings. distinct by (reader type, bytes)", "c05_cases")
}
