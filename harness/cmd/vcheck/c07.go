package main

import (
	"strings"
	"time"

	"verif/harness/core"
)

func init() { checks["C07"] = c07 }

// offClasses lists generator feature classes that stay switched off while an
// open finding covers them (rule 1 of DESIGN §3).
func offClasses(r *core.Run) string {
	var off []string
	for _, f := range []struct{ id, class string }{
		{"KF-C06-enum-dup", "enum-dup-values"},
		{"KF-C06-typedef-default", "default-on-typedef-of-struct-or-container"},
		{"KF-C06-goname-params", "go.name-on-params"},
		{"KF-C07-1", "struct-literal-in-default-on-type-cycle"},
	} {
		if r.HasOpen(f.id) {
			off = append(off, f.class)
		}
	}
	return strings.Join(off, ",")
}

func c07(r *core.Run) {
	bin := r.GoBuild("vchild", "./cmd/vchild")
	extra := []string{"off=" + offClasses(r), "orders=" + map[bool]string{true: "120", false: "720"}[r.Quick()]}
	run := func(stream string, n uint64) {
		r.RunChildren(core.ChildSpec{Bin: bin, Monitor: "c07", Stream: stream, From: 0, To: n, Timeout: 25 * time.Minute, Extra: extra})
	}
	run("probe", 1)
	run("safe", uint64(r.Pick(6000, 200000)))
	run("invalid", uint64(r.Pick(4000, 120000)))
	r.Require("programs", 50)
	r.Require("hooked_orders", 1000)
	r.Require("invalid_programs", 50)
	r.Set("exhaustive_subspace", "for programs whose every module has <= 6 entries per kind (counted in programs_all_orders_enumerated, thorough tier): all n! link orders of every (module, kind) list; otherwise the first 120/720 permutations or 200 random orders")
	r.Assumption("the model's own resolver (bare name in the same file, include-qualified name in the included file, typedef roots, constant casting) is the statement of correct binding")
	r.Assumption("link orders are forced through the verif-tagged CompileWithLinkOrder hook, which only chooses among orders Compile itself can take")
	r.FinishStd("valid multi-file programs (forward/cross-file references, typedef chains, diamond and cyclic includes, dotted local names, constants of every type with casts and references, service inheritance) compiled under natural map order (6 runs), enumerated/forced link orders and 6 definition permutations; canonical dump of the compiled module graph (bindings by (file,name), typedef targets and roots, cast constant values, defaults, service parents, object identity of shared definitions) must equal the model's dump every time; invalid programs (typedef cycles incl. through containers, dangling references, duplicates) must be rejected under every order. non-trivial = program with >= 3 definitions, distinct by dump", "cases")
}
