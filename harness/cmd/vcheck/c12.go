package main

import (
	"time"

	"verif/harness/core"
)

func init() { checks["C12"] = c12 }

func c12(r *core.Run) {
	bin := r.GoBuild("vchild", "./cmd/vchild")
	run := func(stream string, n uint64) {
		r.RunChildren(core.ChildSpec{Bin: bin, Monitor: "c12", Stream: stream, From: 0, To: n, Timeout: 15 * time.Minute, MemKB: 8 << 20})
	}
	run("rt", uint64(r.Pick(150000, 3000000)))
	run("rpc", uint64(r.Pick(100000, 2000000)))
	run("classify", uint64(r.Pick(1000000, 20000000)))
	r.Require("cases", 10000)
	r.Require("rpc_cases", 1000)
	r.Require("classify_both_accept", 1000)
	for _, k := range []string{"whole", "one-byte", "fixed-k", "random", "zero-length-interleaved", "first-read-1"} {
		r.Require("req_chunk_"+k, 100)
	}
	r.Assumption("refcodec's envelope grammar (versioned: 0x8001,0,type | name | seqid | struct; legacy: name | type | seqid | struct; bare struct) is the reference")
	r.Assumption("message types 0..127, names of 1..65536 bytes as the statement quantifies")
	r.FinishStd("stream rt: random (name incl. non-UTF-8 and ':', type, seqid, body) -> every envelope encoder vs spec bytes, every envelope decoder, then the request in 3 framings through DecodeRequest and ReadRequest (random chunking class, seekable or not), wrong-type rejection, response re-decoded by refcodec; stream rpc: internal envelope client -> multiplex -> server loop judged on the bytes that crossed the transport; stream classify: agreement of the two request APIs on mutated/random bytes. non-trivial: every rt/rpc case (distinct by bytes), classify cases both APIs accept", "cases")
}
