package main

import (
	"time"

	"verif/harness/core"
)

func init() { checks["C09"] = c09 }

func c09(r *core.Run) {
	bin := r.GoBuild("vchild", "./cmd/vchild")
	// case index = (boundary literal, position kind) -> the grid is enumerated
	// completely once per 14*len(literals) indices; further passes vary the
	// random sub-choices (type, container, typedef)
	n := uint64(r.Pick(14*300*3, 14*300*60))
	r.RunChildren(core.ChildSpec{Bin: bin, Monitor: "c09", Stream: "grid", From: 0, To: n, Timeout: 20 * time.Minute})
	r.Require("accepted", 200)
	r.Require("rejected", 200)
	r.Set("exhaustive_subspace", "every boundary literal (0, +-1, +-2^7, +-2^8, +-2^15, +-2^16, +-2^31, +-2^32, +-2^62, int64 extremes, each +-2 neighbours, decimal/hex/+signed forms, and six literals beyond int64) x 14 numeric positions; sub-choices (integer type, container, typedef, struct kind) are random per pass")
	r.Assumption("the numeric rules of the statement (16-bit field ids, 32-bit enum values incl. implicit successors, iN constants, 0/1 booleans, enum-by-number only for item values, uniqueness, no self-definition) are the oracle; id 0 is left open")
	r.Assumption("a crash of the compiler (e.g. stack overflow on a self-referential constant) is reported here as a violation too, found by process monitoring")
	r.FinishStd("tiny programs placing each boundary literal at each numeric position (explicit/auto field ids in structs, unions, exceptions and arguments, strict and non-strict; explicit and implicit enum values; integer constants of every width directly, through typedefs, in containers, struct literals and defaults; enum constants by number; booleans and doubles from integers) plus duplicate and self-definition programs; accepted programs must carry exactly the written numbers", "cases")
}
