package main

import (
	"bytes"
	"crypto/sha256"
	"encoding/hex"
	"encoding/json"
	"fmt"
	"os"
	"os/exec"
	"path/filepath"
	"regexp"
	"runtime"
	"sort"
	"strings"
	"sync"
	"syscall"
	"time"

	"verif/harness/core"
)

func init() { checks["C17"] = c17 }

type c17Plugin struct {
	name  string
	files map[string]string
	fail  string // "", "handshake", "generate"
}

type c17Case struct {
	id      int
	desc    string
	thrift  map[string]string // path relative to sandbox parent -> text
	input   string            // relative to parent
	root    string            // --thrift-root relative to parent ("" = inferred)
	args    []string
	plugins []c17Plugin
	// expectation
	mustFail   bool     // a failure cause the statement names
	mustOK     bool     // nothing wrong: must succeed
	expectGen  []string // generated paths relative to out on success (core)
	conflict   bool     // two sources produce the same file
	writePhase bool     // failure may only happen while writing (confinement only)
	strace     bool
	lib        bool // gen.Generate called directly (vgenlib), without the command line's ancestry check
}

func snapshot(root string) map[string]string {
	m := map[string]string{}
	filepath.Walk(root, func(p string, info os.FileInfo, err error) error {
		if err != nil {
			return nil
		}
		rel, _ := filepath.Rel(root, p)
		if info.IsDir() {
			m[rel+"/"] = fmt.Sprintf("dir %o", info.Mode().Perm())
			return nil
		}
		if info.Mode()&os.ModeSymlink != 0 {
			t, _ := os.Readlink(p)
			m[rel] = "symlink " + t
			return nil
		}
		b, _ := os.ReadFile(p)
		h := sha256.Sum256(b)
		m[rel] = fmt.Sprintf("file %o %d %s", info.Mode().Perm(), len(b), hex.EncodeToString(h[:8]))
		return nil
	})
	return m
}

func diffSnap(a, b map[string]string) (created, modified, removed []string) {
	for k, v := range b {
		if o, ok := a[k]; !ok {
			created = append(created, k)
		} else if o != v {
			modified = append(modified, k)
		}
	}
	for k := range a {
		if _, ok := b[k]; !ok {
			removed = append(removed, k)
		}
	}
	sort.Strings(created)
	sort.Strings(modified)
	sort.Strings(removed)
	return
}

const svcThrift = "struct Req {\n  1: optional string a\n}\nservice KV {\n  string get(1: Req r)\n}\n"

// a module that compiles but cannot be generated (two definitions whose Go names collide)
const badGenThrift = "struct Foo_Bar {}\nstruct FooBar {}\n"

func c17Cases(r *core.Run) []*c17Case {
	var cases []*c17Case
	add := func(c *c17Case) { c.id = len(cases); cases = append(cases, c) }
	okPlugin := func(name string, files map[string]string) c17Plugin { return c17Plugin{name: name, files: files} }
	simple := func() *c17Case {
		return &c17Case{thrift: map[string]string{"thrift/svc.thrift": svcThrift}, input: "thrift/svc.thrift", expectGen: []string{"svc/svc.go"}}
	}
	// --- plugin path shapes (single plugin)
	shapes := []struct {
		path       string
		rejected   bool // contains "..": the run may refuse it or confine it, but nothing may be written outside
		conflict   bool // denotes the core generator's own file
		writePhase bool
	}{
		{"plug/x.go", false, false, false},
		{"deep/er/dir/x.txt", false, false, false},
		{"x.go", false, false, false},
		{"/abs/evil.txt", false, false, false},
		{"/etc/c17-evil", false, false, false},
		{"../escape.txt", true, false, false},
		{"a/../../escape.txt", true, false, false},
		{"a/../b.txt", true, false, false},
		{"..", true, false, false},
		{"a/..b/c.txt", true, false, false},
		{".", false, false, true},
		{"", false, false, true},
		{"a//b.go", false, false, false},
		{"./a/b.go", false, false, false},
		{"a/./b.go", false, false, false},
		{"svc/svc.go", false, true, false},
		{"./svc/svc.go", false, true, false},
		{"svc//svc.go", false, true, false},
		{"/svc/svc.go", false, true, false},
		{"svc/./svc.go", false, true, false},
		{"svc", false, false, true}, // a directory the core creates
		{"svc/svc.go/x", false, false, true},
		{"pre/existing.txt", false, false, false},
		{"a\x00b", false, false, true},
		{strings.Repeat("d/", 40) + "f.txt", false, false, false},
	}
	for _, s := range shapes {
		c := simple()
		c.desc = fmt.Sprintf("plugin path %q", s.path)
		c.plugins = []c17Plugin{okPlugin("plugA", map[string]string{s.path: "plugin content"})}
		c.mustFail = s.conflict
		c.conflict = s.conflict
		c.writePhase = s.writePhase
		c.mustOK = !c.mustFail && !s.writePhase && !s.rejected
		add(c)
	}
	// --- the conflicting path is one of several files of the response, with
	// files sorting before and after it (from one plugin, and spread over two)
	for _, alias := range []string{"svc/svc.go", "./svc/svc.go", "/svc/svc.go"} {
		for _, others := range [][]string{{"zzz/last.go"}, {"aaa/first.go"}, {"aaa/first.go", "zzz/last.go"}, {"svc/svc2.go", "svc/a.go"}} {
			c := simple()
			c.desc = fmt.Sprintf("plugin files %q plus %q", alias, others)
			files := map[string]string{alias: "plugin content"}
			for _, o := range others {
				files[o] = "other " + o
			}
			c.plugins = []c17Plugin{okPlugin("plugA", files)}
			c.mustFail, c.conflict = true, true
			add(c)
			c = simple()
			c.desc = fmt.Sprintf("plugA %q, plugB %q", alias, others)
			rest := map[string]string{}
			for _, o := range others {
				rest[o] = "other " + o
			}
			c.plugins = []c17Plugin{okPlugin("plugA", map[string]string{alias: "plugin content"}), okPlugin("plugB", rest)}
			c.mustFail, c.conflict = true, true
			add(c)
		}
	}
	// --- two plugins producing the same file (also through aliases)
	for _, pair := range [][2]string{{"p/x.go", "p/x.go"}, {"p/x.go", "./p/x.go"}, {"p/x.go", "p//x.go"}, {"p/x.go", "/p/x.go"}, {"p/x.go", "p/./x.go"}, {"p/x.go", "p/y.go"}} {
		c := simple()
		c.desc = fmt.Sprintf("two plugins: %q and %q", pair[0], pair[1])
		c.plugins = []c17Plugin{okPlugin("plugA", map[string]string{pair[0]: "from A"}), okPlugin("plugB", map[string]string{pair[1]: "from B"})}
		same := filepath.Clean("/"+pair[0]) == filepath.Clean("/"+pair[1])
		c.mustFail, c.conflict, c.mustOK = same, same, !same
		add(c)
	}
	// --- failures that must leave the output directory untouched
	{
		c := simple()
		c.desc = "compile failure (dangling reference)"
		c.thrift["thrift/svc.thrift"] = "struct S {\n  1: optional Missing m\n}\n"
		c.mustFail = true
		add(c)
		c = simple()
		c.desc = "parse failure"
		c.thrift["thrift/svc.thrift"] = "struct {"
		c.mustFail = true
		add(c)
		for _, stage := range []string{"handshake", "generate"} {
			c = simple()
			c.desc = "plugin fails at " + stage
			c.plugins = []c17Plugin{{name: "plugA", files: map[string]string{"p/x.go": "x"}, fail: stage}}
			c.mustFail = true
			add(c)
			c = simple()
			c.desc = "second of two plugins fails at " + stage
			c.plugins = []c17Plugin{okPlugin("plugA", map[string]string{"p/a.go": "a"}), {name: "plugB", files: map[string]string{"p/b.go": "b"}, fail: stage}}
			c.mustFail = true
			add(c)
		}
	}
	// --- the k-th of n modules fails to generate
	for n := 2; n <= 4; n++ {
		for k := 0; k < n; k++ {
			c := &c17Case{thrift: map[string]string{}, input: "thrift/m0.thrift", mustFail: true}
			c.desc = fmt.Sprintf("module %d of %d cannot be generated", k+1, n)
			for i := 0; i < n; i++ {
				txt := ""
				if i+1 < n {
					txt += fmt.Sprintf("include \"./m%d.thrift\"\n", i+1)
				}
				if i == k {
					txt += badGenThrift
				} else {
					txt += fmt.Sprintf("struct S%d {\n  1: optional i32 a\n}\n", i)
				}
				c.thrift[fmt.Sprintf("thrift/m%d.thrift", i)] = txt
			}
			c.plugins = []c17Plugin{okPlugin("plugA", map[string]string{"p/x.go": "x"})}
			add(c)
		}
	}
	// --- a large amount of generated code before the failure point (an
	// implementation that spills files to disk early would leave them behind)
	{
		var big strings.Builder
		big.WriteString("include \"./m1.thrift\"\n")
		for i := 0; i < 420; i++ {
			fmt.Fprintf(&big, "struct Big%d {\n", i)
			for f := 1; f <= 8; f++ {
				fmt.Fprintf(&big, "  %d: optional map<string, list<i64>> f%d\n", f, f)
			}
			big.WriteString("}\n")
		}
		c := &c17Case{desc: "5+ MiB of generated code, then an included module cannot be generated", input: "thrift/m0.thrift", mustFail: true,
			thrift: map[string]string{"thrift/m0.thrift": big.String(), "thrift/m1.thrift": badGenThrift}}
		add(c)
		c = &c17Case{desc: "5+ MiB of generated code, then the plugin fails at generate", input: "thrift/m0.thrift", mustFail: true,
			thrift:  map[string]string{"thrift/m0.thrift": big.String(), "thrift/m1.thrift": "struct Small {}\n"},
			plugins: []c17Plugin{{name: "plugA", files: map[string]string{"p/x.go": "x"}, fail: "generate"}}}
		add(c)
		c = &c17Case{desc: "5+ MiB of generated code, nothing wrong", input: "thrift/m0.thrift", mustOK: true,
			thrift:    map[string]string{"thrift/m0.thrift": big.String(), "thrift/m1.thrift": "struct Small {}\n"},
			expectGen: []string{"m0/m0.go", "m1/m1.go"}}
		add(c)
	}
	// --- layouts
	{
		c := &c17Case{desc: "nested directories, inferred root", input: "thrift/a/top.thrift", mustOK: true,
			thrift:    map[string]string{"thrift/a/top.thrift": "include \"../b/c/leaf.thrift\"\nstruct T {\n  1: optional leaf.L l\n}\n", "thrift/b/c/leaf.thrift": "struct L {}\n"},
			expectGen: []string{"a/top/top.go", "b/c/leaf/leaf.go"}}
		add(c)
		c = &c17Case{desc: "explicit thrift root above the files", input: "thrift/a/top.thrift", root: ".", mustOK: true,
			thrift:    map[string]string{"thrift/a/top.thrift": "include \"../b/c/leaf.thrift\"\nstruct T {\n  1: optional leaf.L l\n}\n", "thrift/b/c/leaf.thrift": "struct L {}\n"},
			expectGen: []string{"thrift/a/top/top.go", "thrift/b/c/leaf/leaf.go"}}
		add(c)
		// outcome free (the statement does not say it must be refused); confinement and all-or-nothing still apply
		c = &c17Case{desc: "included file outside the explicit thrift root", input: "thrift/a/top.thrift", root: "thrift/a",
			thrift: map[string]string{"thrift/a/top.thrift": "include \"../b/leaf.thrift\"\nstruct T {\n  1: optional leaf.L l\n}\n", "thrift/b/leaf.thrift": "struct L {}\n"}}
		add(c)
		c = &c17Case{desc: "included file in the sibling 'other' directory, inferred root is the common parent", input: "thrift/top.thrift", mustOK: true,
			thrift:    map[string]string{"thrift/top.thrift": "include \"../other/inc/leaf.thrift\"\nstruct T {\n  1: optional leaf.L l\n}\n", "other/inc/leaf.thrift": "struct L {}\n"},
			expectGen: []string{"thrift/top/top.go", "other/inc/leaf/leaf.go"}}
		add(c)
		c = &c17Case{desc: "no-recurse generates only the input module", input: "thrift/a/top.thrift", mustOK: true, args: []string{"--no-recurse"},
			thrift:    map[string]string{"thrift/a/top.thrift": "include \"../b/leaf.thrift\"\nstruct T {\n  1: optional leaf.L l\n}\n", "thrift/b/leaf.thrift": "struct L {}\n"},
			expectGen: []string{"a/top/top.go"}}
		add(c)
		c = &c17Case{desc: "output-file names the single output", input: "thrift/a/top.thrift", mustOK: true, args: []string{"--output-file", "gen.go"},
			thrift:    map[string]string{"thrift/a/top.thrift": "struct T {}\n"},
			expectGen: []string{"top/gen.go"}}
		add(c)
		c = &c17Case{desc: "output-file without .go (outcome free)", input: "thrift/a/top.thrift", args: []string{"--output-file", "gen.txt"},
			thrift: map[string]string{"thrift/a/top.thrift": "struct T {}\n"}}
		add(c)
	}
	// --- the library entry point gen.Generate with a thrift root that does not
	// contain every included file (the command line refuses these layouts
	// beforehand; a library caller is not protected by that check). The outcome
	// is free; confinement and all-or-nothing apply.
	for _, l := range []struct{ root, input, inc, incPath string }{
		{"thrift/a", "thrift/a/top.thrift", "../b/leaf.thrift", "thrift/b/leaf.thrift"},
		{"thrift/a/deep", "thrift/a/deep/top.thrift", "../../b/leaf.thrift", "thrift/b/leaf.thrift"},
		{"thrift/a/deep", "thrift/a/deep/top.thrift", "../../../other/inc/leaf.thrift", "other/inc/leaf.thrift"},
		{"thrift/a/deep/er", "thrift/a/deep/er/top.thrift", "../../../../leaf.thrift", "leaf.thrift"},
		{"thrift/a", "thrift/a/top.thrift", "./sub/leaf.thrift", "thrift/a/sub/leaf.thrift"},
	} {
		for _, extra := range [][]string{nil, {"no-recurse"}} {
			c := &c17Case{desc: fmt.Sprintf("library gen.Generate: root %s, include %s %v", l.root, l.inc, extra), input: l.input, root: l.root, lib: true, args: extra,
				thrift: map[string]string{l.input: "include \"" + l.inc + "\"\nstruct T {\n  1: optional leaf.L l\n}\n", l.incPath: "struct L {}\n"}}
			add(c)
		}
	}
	// --- an in-process api.ServiceGenerator handed to gen.Generate: its paths
	// pass through no transport, so only gen's own handling confines them.
	// Outcome free for '..' forms; the plain and aliased ones must be written
	// inside, the core path and its aliases must be reported as a conflict.
	for _, s := range []struct {
		path     string
		free     bool
		conflict bool
	}{
		{"plug/x.go", false, false}, {"/abs/evil.txt", false, false}, {"./a/b.go", false, false}, {"a//b.go", false, false},
		{"../escape.txt", true, false}, {"a/../../escape.txt", true, false}, {"a/../../../../escape.txt", true, false}, {"a/../b.txt", true, false},
		{"../out/keep.me", true, false}, {"../other/canary.txt", true, false}, {"..", true, false},
		{"svc/svc.go", false, true}, {"./svc/svc.go", false, true}, {"svc/../svc/svc.go", true, false},
	} {
		for _, more := range []bool{false, true} {
			c := simple()
			c.lib = true
			c.root = "thrift"
			c.desc = fmt.Sprintf("library gen.Generate with an in-process plugin: path %q (with other files: %v)", s.path, more)
			files := map[string]string{s.path: "plugin content"}
			if more {
				files["aaa/first.go"] = "first"
				files["zzz/last.go"] = "last"
			}
			c.plugins = []c17Plugin{{name: "inproc", files: files}}
			c.mustFail, c.conflict = s.conflict, s.conflict
			c.mustOK = !s.free && !s.conflict
			// without a transport ".." cleans to the output directory itself: like
			// "." and "" on the command line, that can only fail in the write loop
			c.writePhase = s.path == ".."
			add(c)
		}
	}
	for i, c := range cases {
		c.strace = !r.Quick() || i%4 == 0
	}
	// random combinations
	rr := core.NewRand(r.Seed, "c17", 0)
	extra := r.Pick(400, 4000)
	for k := 0; k < extra; k++ {
		c := simple()
		np := rr.Range(1, 3)
		paths := []string{"zz/last.go", "svc/zz.go", "p/x.go", "./p/x.go", "q/y.go", "/q/y.go", "svc/svc.go", "./svc/svc.go", "../up.txt", "ok/z.txt", "ok//z.txt", "deep/a/b/c.txt", "x/../y.txt", "x/../../up2.txt", "deep/a/../../../up3.txt"}
		used := map[string]bool{"/svc/svc.go": true}
		c.desc = "random:"
		dotdot := false
		for p := 0; p < np; p++ {
			pl := c17Plugin{name: fmt.Sprintf("plug%c", 'A'+p), files: map[string]string{}}
			for n := rr.Range(1, 2); n > 0; n-- {
				pa := paths[rr.Intn(len(paths))]
				pl.files[pa] = fmt.Sprintf("%s/%d", pl.name, k)
			}
			if rr.Chance(1, 8) {
				pl.fail = []string{"handshake", "generate"}[rr.Intn(2)]
				c.mustFail = true
			}
			for pa := range pl.files {
				if strings.Contains(pa, "..") {
					dotdot = true // may be refused or confined: outcome free, confinement checked
				}
				key := filepath.Clean("/" + pa)
				if used[key] {
					c.mustFail, c.conflict = true, true
				}
				used[key] = true
			}
			c.desc += fmt.Sprintf(" %s%v", pl.name, keys(pl.files))
			if pl.fail != "" {
				c.desc += "(fails at " + pl.fail + ")"
			}
			c.plugins = append(c.plugins, pl)
		}
		// a failing plugin makes files of the same plugin irrelevant for conflicts,
		// but the run must fail anyway
		c.mustOK = !c.mustFail && !dotdot
		c.strace = k%5 == 0
		add(c)
	}
	return cases
}

func keys(m map[string]string) []string {
	var k []string
	for x := range m {
		k = append(k, x)
	}
	sort.Strings(k)
	return k
}

func c17(r *core.Run) {
	r.Level = "fault_enumeration"
	ver := apiVersion()
	host := r.GoBuildRepo("thriftrw", "go.uber.org/thriftrw")
	vplugin := r.GoBuild("vplugin", "./cmd/vplugin")
	vgenlib := r.GoBuild("vgenlib", "./cmd/vgenlib")
	cases := c17Cases(r)
	if r.Replay {
		var keep []*c17Case
		for _, c := range cases {
			if uint64(c.id) == r.ReplayIndex {
				keep = append(keep, c)
			}
		}
		cases = keep
	}
	var wg sync.WaitGroup
	work := make(chan *c17Case)
	for w := 0; w < runtime.NumCPU(); w++ {
		wg.Add(1)
		go func() {
			defer wg.Done()
			for c := range work {
				runC17(r, c, ver, host, vplugin, vgenlib)
			}
		}()
	}
	for _, c := range cases {
		work <- c
	}
	close(work)
	wg.Wait()
	if !r.Replay {
		r.Require("runs", 60)
		r.Require("runs_failed_as_required", 10)
		r.Require("runs_succeeded", 10)
		r.Require("strace_runs", 5)
	}
	r.Set("exhaustive_subspace", "plugin path shapes (relative, absolute, '..' forms, '.', '', repeated separators, './' prefix, equal to a core path directly and through aliases, a directory the core creates, NUL byte, 40 levels deep) for one plugin; pairs of plugins with equal and aliased paths; compile / parse / plugin handshake / plugin generate failures; the k-th of n modules (n = 2..4) failing to generate; thrift-root layouts; plus random combinations")
	r.Assumption("'same path' means the same file after joining with the output directory, so ./x, x//y and /x are aliases of x")
	r.Assumption("a failure that can only occur while files are being written (a plugin path that names the output directory itself or a directory) is not one of the causes the statement lists; for those runs only confinement is asserted")
	r.Assumption("pre-existing symlinks inside the output directory are not part of the explored configurations")
	r.FinishStd("the real thriftrw binary in a sandbox tree parent/{thrift,out,other} with pre-populated out and canary files; whole-tree snapshot (path, mode, size, sha256) before and after every run: nothing outside out may change; a run that must fail (compile/generate/plugin failure, rejected path, conflict) must exit non-zero and leave out byte-identical; a successful run writes generated files exactly at <path of the .thrift relative to the thrift root>/<name>.go plus the plugins' files; strace -f on a sample checks that every path opened for writing lies under out. distinct by case description", "runs")
}

var openWriteRe = regexp.MustCompile(`(?:openat\([^,]+, |open\(|mkdirat\([^,]+, |mkdir\(|unlinkat\([^,]+, |unlink\(|rename\(|renameat2?\([^,]+, )"([^"]+)"([^\n]*)`)

func runC17(r *core.Run, c *c17Case, ver int32, host, vplugin, vgenlib string) {
	dir := filepath.Join(r.Scratch, fmt.Sprintf("c17-%d", c.id))
	parent := filepath.Join(dir, "parent")
	bin := filepath.Join(dir, "bin")
	out := filepath.Join(parent, "out")
	defer os.RemoveAll(dir)
	for _, d := range []string{bin, out, filepath.Join(parent, "other"), filepath.Join(parent, "thrift"), filepath.Join(out, "pre"), filepath.Join(dir, "ctl")} {
		os.MkdirAll(d, 0o755)
	}
	os.WriteFile(filepath.Join(out, "pre", "existing.txt"), []byte("pre-existing content"), 0o644)
	os.WriteFile(filepath.Join(out, "keep.me"), []byte("keep"), 0o600)
	os.WriteFile(filepath.Join(parent, "other", "canary.txt"), []byte("canary"), 0o644)
	os.WriteFile(filepath.Join(parent, "canary-top.txt"), []byte("canary"), 0o644)
	for p, t := range c.thrift {
		os.MkdirAll(filepath.Dir(filepath.Join(parent, p)), 0o755)
		os.WriteFile(filepath.Join(parent, p), []byte(t), 0o644)
	}
	args := []string{"--out", out, "--pkg-prefix", "example.com/gen"}
	if c.root != "" {
		args = append(args, "--thrift-root", filepath.Join(parent, c.root))
	}
	args = append(args, c.args...)
	for _, p := range c.plugins {
		if c.lib {
			break
		}
		os.Symlink(vplugin, filepath.Join(bin, "thriftrw-plugin-"+p.name))
		s := pscript{ReplyName: p.name, APIVersion: ver, Features: []int32{1}, Files: p.files}
		switch p.fail {
		case "handshake":
			s.Steps = []pstep{{"handshake", "exception"}}
		case "generate":
			s.Steps = []pstep{{"generate", "exception"}}
		}
		b, _ := json.Marshal(s)
		sp := filepath.Join(dir, "ctl", p.name+".json")
		os.WriteFile(sp, b, 0o644)
		args = append(args, "--plugin", fmt.Sprintf("%s %s %s", p.name, sp, filepath.Join(dir, "ctl", p.name+".events")))
	}
	args = append(args, filepath.Join(parent, c.input))
	if c.lib {
		host = vgenlib
		args = append([]string{out, filepath.Join(parent, c.root), filepath.Join(parent, c.input)}, c.args...)
		if len(c.plugins) == 1 {
			b, _ := json.Marshal(c.plugins[0].files)
			pf := filepath.Join(dir, "ctl", "inproc.json")
			os.WriteFile(pf, b, 0o644)
			args = append(args, "plugin="+pf)
		}
		r.Add("library_runs", 1)
	}
	before := snapshot(parent)
	// files an absolute plugin path would hit if it escaped
	var cmd *exec.Cmd
	straceLog := filepath.Join(dir, "ctl", "strace.log")
	if c.strace {
		cmd = exec.Command("strace", append([]string{"-f", "-o", straceLog, "-e", "trace=openat,open,mkdir,mkdirat,unlink,unlinkat,rename,renameat,renameat2", host}, args...)...)
	} else {
		cmd = exec.Command(host, args...)
	}
	cmd.Env = append(os.Environ(), "PATH="+bin+":"+os.Getenv("PATH"))
	cmd.Dir = dir
	var stderr bytes.Buffer
	cmd.Stderr = &stderr
	cmd.SysProcAttr = &syscall.SysProcAttr{Setpgid: true}
	if err := cmd.Start(); err != nil {
		r.Inconclusive("cannot start host: %v", err)
		return
	}
	done := make(chan error, 1)
	go func() { done <- cmd.Wait() }()
	var werr error
	select {
	case werr = <-done:
	case <-time.After(120 * time.Second):
		syscall.Kill(-cmd.Process.Pid, syscall.SIGKILL)
		<-done
		r.Violate(core.Violation{Stream: "c17", Index: uint64(c.id), What: "host did not finish within 120 s: " + c.desc})
		return
	}
	exit := 0
	if werr != nil {
		exit = 1
	}
	after := snapshot(parent)
	created, modified, removed := diffSnap(before, after)
	r.Add("runs", 1)
	det := map[string]any{"case": c.desc, "exit": exit, "stderr": tailStr(stderr.String(), 800), "created": created, "modified": modified, "removed": removed, "args": args}
	viol := func(what string) {
		r.Violate(core.Violation{Stream: "c17", Index: uint64(c.id), What: what + "  [" + c.desc + "]", Detail: det})
	}
	if strings.Contains(stderr.String(), "panic:") || strings.Contains(stderr.String(), "fatal error:") {
		viol("host panicked")
	}
	// (1) confinement: nothing outside out changes; also nothing at absolute plugin paths
	for _, lst := range [][]string{created, modified, removed} {
		for _, p := range lst {
			if !strings.HasPrefix(p, "out/") && p != "out/" {
				viol(fmt.Sprintf("a path outside the output directory was touched: %s", p))
			}
		}
	}
	for _, p := range c.plugins {
		for f := range p.files {
			if filepath.IsAbs(f) {
				if _, err := os.Stat(f); err == nil && !strings.HasPrefix(f, out) {
					viol("a plugin's absolute path was written outside the output directory: " + f)
					os.Remove(f)
				}
			}
		}
	}
	// (2) all-or-nothing
	if c.mustFail {
		if exit == 0 {
			what := "a run that had to fail exited with status 0"
			if c.conflict {
				what = "two sources produced the same file and no conflict was reported (exit 0)"
			}
			viol(what)
		} else {
			r.Add("runs_failed_as_required", 1)
			if len(created)+len(modified)+len(removed) > 0 && !c.writePhase {
				viol(fmt.Sprintf("the run failed but the output directory was changed (%d created, %d modified, %d removed)", len(created), len(modified), len(removed)))
			}
		}
	}
	if !c.mustFail && !c.mustOK && exit != 0 && !c.writePhase {
		// outcome was free, the run chose to fail: then nothing may have changed
		r.Add("runs_failed_by_choice", 1)
		if len(created)+len(modified)+len(removed) > 0 {
			viol(fmt.Sprintf("the run failed but the output directory was changed (%d created, %d modified, %d removed)", len(created), len(modified), len(removed)))
		}
	}
	if c.mustOK {
		if exit != 0 {
			viol("a run in which nothing is wrong failed")
		} else {
			r.Add("runs_succeeded", 1)
			want := map[string]bool{}
			for _, g := range c.expectGen {
				want["out/"+g] = true
			}
			for _, p := range c.plugins {
				for f := range p.files {
					want["out/"+strings.TrimPrefix(filepath.Clean("/"+f), "/")] = true
				}
			}
			got := map[string]bool{}
			for _, p := range append(append([]string{}, created...), modified...) {
				if !strings.HasSuffix(p, "/") {
					got[p] = true
				}
			}
			for w := range want {
				if !got[w] {
					viol("expected output file missing or unchanged: " + w)
				}
			}
			for g := range got {
				if !want[g] {
					viol("unexpected file written: " + g)
				}
			}
			for _, p := range c.plugins {
				for f, content := range p.files {
					b, err := os.ReadFile(filepath.Join(out, filepath.Clean("/"+f)))
					if err != nil || string(b) != content {
						viol("plugin file not written intact: " + f)
					}
				}
			}
			if len(removed) > 0 {
				viol("files were removed from the output directory")
			}
			if after["out/keep.me"] != before["out/keep.me"] {
				viol("an unrelated pre-existing file was modified")
			}
		}
	}
	if c.writePhase && exit != 0 {
		r.Add("write_phase_failures", 1)
	}
	if c.strace {
		r.Add("strace_runs", 1)
		if b, err := os.ReadFile(straceLog); err == nil {
			for _, m := range openWriteRe.FindAllStringSubmatch(string(b), -1) {
				path, rest := m[1], m[2]
				write := strings.Contains(rest, "O_WRONLY") || strings.Contains(rest, "O_RDWR") || strings.Contains(rest, "O_CREAT") || strings.Contains(m[0], "mkdir") || strings.Contains(m[0], "unlink") || strings.Contains(m[0], "rename")
				if !write || strings.Contains(rest, "= -1 E") && !strings.Contains(rest, "O_CREAT") {
					continue
				}
				if !filepath.IsAbs(path) {
					path = filepath.Join(dir, path)
				}
				path = filepath.Clean(path)
				if strings.HasPrefix(path, out+"/") || path == out || strings.HasPrefix(path, filepath.Join(dir, "ctl")) || strings.HasPrefix(path, "/dev/") || strings.HasPrefix(path, "/proc/") || strings.HasPrefix(path, os.TempDir()) && strings.Contains(path, "go-build") {
					continue
				}
				r.Add("strace_write_paths_outside", 1)
				viol("strace: a path outside the output directory was opened for writing / created: " + path)
			}
		}
	}
	r.AddDistinct(core.HashBytes([]byte(c.desc)))
	if c.id%17 == 0 {
		r.Sample(map[string]any{"case": c.desc, "exit": exit, "created": created, "modified": modified, "stderr_head": headStr(stderr.String(), 160)})
	}
}
