package main

import "verif/harness/core"

func init() {
	checks["C04"] = c04
	checks["C14"] = c14
	checks["C15"] = c15
}

func c13OpenArg(r *core.Run) string {
	if r.HasOpen("KF-C13-1") {
		return "c13open=1"
	}
	return "c13open=0"
}

func c04(r *core.Run) {
	thriftrw := r.GoBuildRepo("thriftrw", "go.uber.org/thriftrw")
	per := uint64(r.Pick(150, 1000))
	runDrivers(r, thriftrw, "safe", uint64(r.Pick(120, 1500)), 30, nil, nil, []driverMon{
		{name: "c04", cases: func(t, c, f int) uint64 { return uint64(t) * per }, extra: []string{c13OpenArg(r)}},
	})
	if !r.Replay {
		r.Require("c04_cases", 1000)
		r.Require("c04_both_accept", 200)
		r.Require("c04_both_reject", 100)
		r.Require("c04_go_values_perturbed", 50)
		for _, k := range []string{"whole", "one-byte", "fixed-k", "random", "zero-length-interleaved", "first-read-1"} {
			r.Require("c04_chunk_"+k, 10)
		}
	}
	r.Set("evaluations", r.Get("c04_cases"))
	r.Assumption("pairwise agreement needs no reference; extraction by reflection is bitwise, so NaN etc. cannot cause false disagreement through Equals")
	r.Assumption("while KF-C13-1 is open, inputs whose declared count/length exceeds the remaining bytes are routed to C13 (counted as routed_to_C13)")
	r.FinishStd("generated types of valid random programs; per type 150/1000 inputs (valid encodings, encodings with foreign fields, grammar-aware evil encodings, truncations, byte mutations): FromWire(Decode(b)) vs Decode(stream) under two chunking classes each - an input the value path accepts must be accepted by the stream path with a bitwise-equal extracted value; plus Go values (valid, and with random pointers/slices/maps set to nil): the two serialisers both fail or produce encodings of the same value. non-trivial = inputs both paths accept, distinct by (type, bytes)", "c04_cases")
}

func c14(r *core.Run) {
	thriftrw := r.GoBuildRepo("thriftrw", "go.uber.org/thriftrw")
	per := uint64(r.Pick(80, 400))
	runDrivers(r, thriftrw, "safe", uint64(r.Pick(120, 1500)), 30, nil, nil, []driverMon{
		{name: "c14", cases: func(t, c, f int) uint64 { return uint64(t) * per }},
	})
	vchild := r.GoBuild("vchild", "./cmd/vchild")
	r.RunChildren(core.ChildSpec{Bin: vchild, Monitor: "c14wire", Stream: "wire", From: 0, To: uint64(r.Pick(300000, 6000000)), Prefix: "wire_"})
	if !r.Replay {
		r.Require("wire_cases", 10000)
		r.Require("wire_mutated_pairs", 1000)
		r.Require("c14_wire_reuse_checks", 300)
		r.Require("c14_cases", 1000)
		r.Require("c14_perturbed_pairs", 300)
		r.Require("c14_nil_checks", 300)
	}
	r.Set("evaluations", r.Get("c14_cases")+r.Get("wire_cases"))
	r.Assumption("values are obtained by decoding, free of NaN, with duplicate-free sets and map keys; the independent comparison is LKey equality of the logical values with defaults filled (unordered sets/maps, == on doubles, unset != zero, absent != empty)")
	r.FinishStd("struct-like generated types of valid random programs; per type 80/400 triples (x, y = permuted re-encoding of x, z = x with one leaf/presence/length/order perturbation), each decoded through a random path: reflexivity, symmetry, transitivity over the triple, x.Equals(z) = wire.ValuesAreEqual(x.ToWire(), z.ToWire()) = independent structural comparison, no panic on nil receiver or argument; plus pairs of arbitrary wire values (duplicate-free, NaN-free; shuffled and single-leaf-mutated copies) for wire.ValuesAreEqual against CanonKey equality, repeated and swapped on the same value objects. distinct by (type, bytes)", "c14_cases")
}

func c15(r *core.Run) {
	thriftrw := r.GoBuildRepo("thriftrw", "go.uber.org/thriftrw")
	per := uint64(r.Pick(60, 300))
	runDrivers(r, thriftrw, "redact", uint64(r.Pick(120, 1500)), 30, nil, nil, []driverMon{
		{name: "c15", cases: func(t, c, f int) uint64 { return uint64(t) * per }},
	})
	if !r.Replay {
		r.Require("c15_cases", 1000)
		r.Require("c15_noninterference_String", 100)
		r.Require("c15_noninterference_zap", 100)
		r.Require("c15_calls_Error", 10)
	}
	r.Set("evaluations", r.Get("c15_cases"))
	r.Assumption("non-interference: two values that differ only in the values of go.redact (for zap also go.nolog) fields, at any depth, must produce identical text; unique marker strings additionally must not occur for hidden fields and must occur (under the label in zap) for visible string fields")
	r.FinishStd("programs placing go.redact / go.nolog on fields of every type in structs, unions, exceptions and service arguments, reached through lists, maps and typedefs; zap enabled; per struct-like type 60/300 value pairs carrying unique markers: String(), Error() and the output of a real zapcore map encoder (compared after JSON canonicalisation, arrays as multisets). distinct by (type, text)", "c15_cases")
}
