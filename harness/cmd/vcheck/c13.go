package main

import (
	"strings"
	"time"

	"verif/harness/core"
)

func init() { checks["C13"] = c13 }

func c13(r *core.Run) {
	bin := r.GoBuild("vchild", "./cmd/vchild")
	run := func(stream string, n uint64) {
		// 6 GiB address-space limit: a request the machine could not satisfy
		// dies deterministically with "out of memory" naming the site.
		r.RunChildren(core.ChildSpec{Bin: bin, Monitor: "c13", Stream: stream, From: 0, To: n, Timeout: 20 * time.Minute, MemKB: 6 << 20, Procs: 8})
	}
	run("value", uint64(r.Pick(600, 12000)))
	run("envelope", uint64(r.Pick(300, 6000)))
	run("frame", uint64(r.Pick(32, 200)))
	run("api", 8*48*6*2) // the plugin/api base messages are fixed: one case per type
	r.Require("cases", 1000)
	for _, k := range []string{"binary.Default.Decode+force", "stream.Reader generic read", "stream.Reader.Skip", "DecodeEnveloped", "ReadEnvelopeBegin+body", "DecodeRequest", "ReadRequest", "frame.Reader.Read", "api.GenerateServiceRequest.Decode(stream)", "api.GenerateServiceRequest.FromWire(Decode)"} {
		r.Require("api_"+k, 10)
	}
	r.Set("bounds", "alloc <= 2 MiB (11 MiB for the frame reader) + 128*N bytes; reader calls + seeks <= 64*N + 256")
	r.Set("exhaustive_subspace", "per base message: every length/count position x {2^16, 2^20, 2^20+1, 2^24, 2^28, 2^31-1} x every API of its family")
	r.Assumption("allocation measured as runtime.MemStats.TotalAlloc delta around one call in a single-goroutine child; work measured as reader calls + seeks, not wall time")
	r.Assumption("children run under ulimit -v 6 GiB so that an oversized request fails deterministically")
	r.FinishStd("short messages (<= 64 bytes; plugin/api messages up to ~200 bytes) whose length/count fields are overwritten with large values, through every decoding API: random-access decode+force, generic stream read, Skip (seekable or not), DecodeEnveloped, ReadEnvelopeBegin, DecodeRequest, ReadRequest, frame reader, FromWire/Decode of plugin/api types; distinct by (API, message)", "cases")
}

// c13Sig turns an out-of-memory crash signature into an allocation-site one.
func init() {
	core.SigRewrite = func(property, sig, stderr string) string {
		if property == "C13" && strings.HasPrefix(sig, "crash:") && (strings.Contains(stderr, "out of memory") || strings.Contains(stderr, "makeslice")) {
			return "alloc:" + strings.TrimPrefix(sig, "crash:")
		}
		return sig
	}
}
