package main

import (
	"fmt"
	"os"
	"sort"
	"strings"
	"time"

	"verif/harness/core"
)

func init() { checks["C10"] = c10 }

func c10(r *core.Run) {
	bin := r.GoBuild("vchild", "./cmd/vchild")
	n := uint64(r.Pick(240, 2000))
	if v := os.Getenv("VERIF_C10_N"); v != "" {
		fmt.Sscan(v, &n)
	}
	passes := r.Pick(2, 3)
	for pass := 0; pass < passes; pass++ {
		// the same cases again in fresh processes (fresh hash seeds)
		r.RunChildren(core.ChildSpec{Bin: bin, Monitor: "c10", Stream: "gen", From: 0, To: n, Timeout: 25 * time.Minute,
			Extra: []string{"off=" + offClasses(r), fmt.Sprintf("pass=%d", pass), "orders=" + map[bool]string{true: "8", false: "16"}[r.Quick()]}})
	}
	keys := make([]string, 0, len(r.Data))
	for k := range r.Data {
		keys = append(keys, k)
	}
	sort.Strings(keys)
	procs := int64(0)
	for _, k := range keys {
		vals := r.Data[k]
		procs += int64(len(vals))
		for _, v := range vals[1:] {
			if v != vals[0] {
				var idx uint64
				fmt.Sscanf(k, "case/%d", &idx)
				if inputOf(v) != inputOf(vals[0]) {
					r.Inconclusive("harness fault: program %d was not drawn identically in two processes (%s vs %s)", idx, inputOf(v), inputOf(vals[0]))
					break
				}
				r.Violate(core.Violation{Stream: "gen", Index: idx, Sig: "nondeterministic",
					What:   "generated output differs between separate processes",
					Detail: map[string]any{"digests": vals}})
				break
			}
		}
	}
	if !r.Replay {
		r.Set("cross_process_comparisons", procs)
		r.Set("processes_per_program", int64(passes))
		r.Require("programs_generated", 50)
		r.Require("runs", 1000)
		r.Require("planted_inheritance_chains", 20)
	}
	r.Assumption("map-iteration nondeterminism is explored by repetition within a process, by fresh processes (new hash seeds) and by forcing link orders through the verif-tagged hook")
	r.FinishStd("every sixth program is a hand-built service inheritance chain across 3-5 modules that include only their successor, beside 1-3 sibling modules including a deep module directly (13 natural-order runs each); the others are valid multi-file programs biased to many includes, name reuse across files and directories, file names equal to imported runtime packages, go.* annotations, constants of map/set/struct type; each generated (random option set: zap, strict enum text, no-recurse, single output file) 5 (quick) or 9 times in one process, under 8/16 forced link orders, and in 2/3 separate processes; sha256 of every output path+content and of the canonically relabelled plugin request must be identical, and success/failure must agree. non-trivial: every program, distinct by (digest, root text)", "cases")
}

func inputOf(v string) string {
	if i := strings.Index(v, " input="); i >= 0 {
		return v[i:]
	}
	return ""
}
