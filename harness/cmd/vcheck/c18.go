package main

import (
	"fmt"
	"os"
	"path/filepath"
	"regexp"
	"strings"
	"time"

	"verif/harness/core"
)

func init() { checks["C18"] = c18 }

var raceFrameRe = regexp.MustCompile(`(?m)^\s+(\S+)\(\)\s*$`)

func c18(r *core.Run) {
	bin := r.GoBuild("vchild-race", "./cmd/vchild", "-race")
	logp := filepath.Join(r.Scratch, "race")
	env := []string{"GORACE=halt_on_error=0 log_path=" + logp}
	run := func(stream string, n uint64, procs int) {
		r.RunChildren(core.ChildSpec{Bin: bin, Monitor: "c18", Stream: stream, From: 0, To: n, Env: env, Timeout: 20 * time.Minute, Procs: procs})
	}
	// few processes: each child itself runs up to 64 goroutines on up to 16 Ps
	run("codec", uint64(r.Pick(1200, 30000)), 6)
	run("frame", uint64(r.Pick(600, 15000)), 6)
	run("fanout", uint64(r.Pick(8000, 300000)), 4)
	// race reports
	files, _ := filepath.Glob(logp + ".*")
	reports := 0
	seen := map[string]bool{}
	for _, f := range files {
		b, err := os.ReadFile(f)
		if err != nil {
			continue
		}
		for _, blk := range strings.Split(string(b), "==================") {
			if !strings.Contains(blk, "WARNING: DATA RACE") {
				continue
			}
			reports++
			var frames []string
			for _, m := range raceFrameRe.FindAllStringSubmatch(blk, -1) {
				if strings.HasPrefix(m[1], "go.uber.org/thriftrw") {
					frames = append(frames, m[1])
				}
				if len(frames) == 2 {
					break
				}
			}
			sig := "race:" + strings.Join(frames, "|")
			if seen[sig] {
				continue
			}
			seen[sig] = true
			if len(blk) > 6000 {
				blk = blk[:6000]
			}
			r.Violate(core.Violation{Stream: "race-detector", Index: uint64(len(seen)), Sig: sig,
				What:   "data race reported by the Go race detector: " + strings.Join(frames, " / "),
				Detail: map[string]any{"report": blk}})
		}
	}
	r.Set("race_reports", int64(reports))
	r.Set("race_reports_distinct", int64(len(seen)))
	recycled := r.Get("writer_borrows") - r.Get("pool_new_Writer")
	r.Set("pool_writer_recycled", recycled)
	r.Set("pool_recycling_observed", fmt.Sprintf("%d Writer borrows vs %d Writers ever constructed by the pool (hook counter)", r.Get("writer_borrows"), r.Get("pool_new_Writer")))
	if recycled <= 0 {
		r.Inconclusive("no pool recycling observed: %d Writer borrows, %d constructed", r.Get("writer_borrows"), r.Get("pool_new_Writer"))
	}
	r.Require("ops", 1000)
	r.Require("overlapping_pairs", 1000)
	r.Require("frame_sends", 500)
	r.Require("frame_rounds_os_pipe", 10)
	r.Require("fanout_conflict_rounds", 100)
	for _, K := range []int{2, 8, 64} {
		for _, P := range []int{1, 2, 16} {
			r.Require(fmt.Sprintf("grid_K%d_P%d", K, P), 1)
		}
	}
	r.Assumption("race freedom and isolation are decided on the schedules the Go scheduler produced under GOMAXPROCS in {1,2,16} with random yields and forced GCs; the race detector only sees executed accesses")
	r.Assumption("the sequential baseline of every operation is computed in the same process before the goroutines start and equals the refcodec result")
	r.FinishStd("codec: rounds of K in {2,8,64} goroutines x GOMAXPROCS in {1,2,16}, each goroutine 18 operations drawn from 12 kinds (value and stream codec, envelopes, both request APIs, FromWire/ToWire/Encode/Decode of plugin/api types) on unique values, result compared with its run-alone baseline, under the race detector with a GC-forcing goroutine; frame: K concurrent Sends with unique payloads on one frame client (io.Pipe and OS pipes, delayed writes) against an echo server, exactly-once conservation; fanout: MultiServiceGenerator over 2..8 fake generators (barrier-synchronised or delayed) with and without planted path conflicts. distinct non-trivial = (kind pair observed overlapping, K, GOMAXPROCS) combinations plus frame/fanout rounds", "cases")
}
