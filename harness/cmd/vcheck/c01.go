package main

import "verif/harness/core"

func init() { checks["C01"] = c01 }

func c01(r *core.Run) {
	thriftrw := r.GoBuildRepo("thriftrw", "go.uber.org/thriftrw")
	per := uint64(r.Pick(60, 300))
	runDrivers(r, thriftrw, "safe", uint64(r.Pick(120, 1500)), 30, nil, nil, []driverMon{
		{name: "c01", cases: func(t, c, f int) uint64 { return uint64(t) * per }},
		{name: "c01consts", cases: func(t, c, f int) uint64 { return uint64(c+t) * 2 }},
	})
	if !r.Replay {
		r.Require("c01_cases", 1000)
		r.Require("c01_kind_struct", 100)
		r.Require("c01_kind_typedef", 10)
		r.Require("c01_kind_enum", 10)
		r.Require("c01_invalid_values", 20)
		r.Require("c01consts_constants", 20)
		r.Require("c01_accessor_calls", 100)
	}
	r.Set("evaluations", r.Get("c01_cases")+r.Get("c01consts_cases"))
	r.Assumption("refcodec + the IDL model (Lower / Project / FillDefaults) are the statement of 'exactly per the Thrift schema'; values enter and leave generated Go types by reflection only, so serialiser and deserialiser are judged separately")
	r.Assumption("the documented exemption 'a nil required list encodes as an empty list' is not injected as a violation")
	r.FinishStd("generated code of valid random multi-file programs (every base type, nested containers incl. unhashable keys and slice-sets, typedef chains, enums, structs/unions/exceptions, defaults, constants, go.* annotations; random CLI option sets) built into a driver; per named type 60/300 random values: Encode(stream) and binary.Encode(ToWire()) must decode under the reference codec to the value with defaults filled; Decode(stream, random chunking) and FromWire(Decode) of a reference encoding (shuffled field and entry order) must extract to it; schema-violating variants (required unset, union with 0/2 members, nil element) must be refused; Get*/IsSet* accessors; constants and Default_* constructors equal the cast IDL literals. distinct by (type, value)", "c01_cases")
}
