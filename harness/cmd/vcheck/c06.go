package main

import (
	"fmt"
	"strings"

	"verif/harness/core"
	"verif/harness/genlab"
)

func init() { checks["C06"] = c06 }

func offSet(r *core.Run) map[string]bool {
	m := map[string]bool{}
	for _, f := range strings.Split(offClasses(r), ",") {
		if f != "" {
			m[f] = true
		}
	}
	return m
}

func c06(r *core.Run) {
	thriftrw := r.GoBuildRepo("thriftrw", "go.uber.org/thriftrw")
	nSafe := uint64(r.Pick(400, 6000))
	nHost := uint64(r.Pick(400, 6000))
	chunk := uint64(200)
	var violated int
	report := func(pr *genlab.Prog, what, sig string, extra map[string]any) {
		d := map[string]any{"files": pr.Files(), "cli_options": pr.CLI.String(), "program": pr.Index, "stream": pr.Stream}
		for k, v := range extra {
			d[k] = v
		}
		violated++
		r.Violate(core.Violation{Stream: pr.Stream, Index: pr.Index, What: what, Sig: sig, Detail: d})
	}
	rejectClasses := map[string]int{}
	run := func(stream string, n uint64, hostile bool) {
		for from := uint64(0); from < n; from += chunk {
			to := from + chunk
			if to > n {
				to = n
			}
			if r.Replay {
				if stream != r.ReplayStream || r.ReplayIndex < from || r.ReplayIndex >= to {
					continue
				}
				from, to = r.ReplayIndex, r.ReplayIndex+1
			}
			spec := genlab.NamedSpec(stream, offSet(r), from, to)
			b := genlab.Generate(r, thriftrw, fmt.Sprintf("%s-%d", stream, from), spec)
			out, _ := b.BuildAll()
			if strings.HasPrefix(out, genlab.Unattributed) || (strings.Contains(out, "verif/harness") && strings.Contains(out, "cannot find")) {
				r.Inconclusive("scratch module cannot be built: %s", tailStr(out, 400))
			}
			for _, pr := range b.Progs {
				r.Add("programs", 1)
				r.Add("cases", 1)
				r.Add("files", int64(len(pr.P.Files)))
				if strings.Contains(pr.GenOut, "panic:") || strings.Contains(pr.GenOut, "fatal error:") || strings.HasPrefix(pr.GenOut, "TIMEOUT after ") {
					report(pr, "thriftrw crashed or hung instead of returning an error: "+genlab.ErrorClass(pr.GenOut), "crash", map[string]any{"output": tailStr(pr.GenOut, 3000)})
					continue
				}
				switch {
				case !pr.GenOK && !hostile:
					r.Add("safe_rejected", 1)
					report(pr, "a valid program is rejected: "+genlab.ErrorClass(pr.GenOut), "reject:"+genlab.ErrorClass(pr.GenOut), map[string]any{"output": tailStr(pr.GenOut, 2000)})
				case !pr.GenOK:
					r.Add("hostile_rejected_with_error", 1)
					rejectClasses[genlab.ErrorClass(pr.GenOut)]++
				case !pr.BuildOK:
					r.Add("accepted_not_compiling", 1)
					report(pr, "accepted program yields Go that does not compile: "+genlab.ErrorClass(pr.Build), "nocompile:"+genlab.ErrorClass(pr.Build), map[string]any{"compiler": tailStr(pr.Build, 3000)})
				default:
					r.Add("accepted_and_compiled", 1)
					if hostile {
						r.Add("hostile_accepted_and_compiled", 1)
					}
				}
				var key []byte
				for _, f := range pr.P.Files {
					key = append(key, f.Text...)
				}
				if len(key) > 100 {
					r.AddDistinct(core.HashBytes(key, []byte(pr.CLI.String())))
				}
				if pr.Index%37 == 0 {
					r.Sample(map[string]any{"stream": stream, "program": pr.Index, "files": len(pr.P.Files), "cli": pr.CLI.String(), "generated": pr.GenOK, "compiled": pr.BuildOK, "root_head": headStr(pr.P.Files[0].Text, 300)})
				}
			}
			b.Remove()
		}
	}
	run("safe", nSafe, false)
	run("hostile", nHost, true)
	for i, k := range genlab.SortedKeys(rejectClasses) {
		if i < 12 {
			r.Set("hostile_rejected: "+k, int64(rejectClasses[k]))
		}
	}
	if !r.Replay {
		r.Require("programs", 50)
		r.Require("accepted_and_compiled", 20)
	}
	r.Assumption("the Go compiler (go build ./... in a scratch module whose go.mod replaces go.uber.org/thriftrw with /repo) is the observer of generated code")
	r.Assumption("SAFE programs follow Appendix A of DESIGN.md; feature classes covered by an open finding are switched off in the safe stream and kept alive by probes")
	r.FinishStd("multi-file programs in nested directory layouts through the real thriftrw binary under random option sets (zap, strict enum text, per-module no-recurse, single output file, inferred thrift root) and random source layout; stream safe: valid by construction -> must be generated and must compile; stream hostile: the same programs with definitions, fields, items, functions and parameters renamed to Go keywords, initialisms, SCREAMING_CASE and names of generated methods/helpers -> either rejected with an error or accepted and compiling. non-trivial = program text > 100 bytes, distinct by (text, options)", "cases")
}
