package main

import (
	"fmt"
	"os"
	"regexp"
	"strings"
	"time"

	"verif/harness/core"
	"verif/harness/genlab"
)

type driverMon struct {
	name  string
	cases func(types, consts, funcs int) uint64
	extra []string
}

var oomInGeneratedDecode = regexp.MustCompile(`(?s)(out of memory|makeslice: (len|cap) out of range).*?\._(List|Set|Map)_\w+_Decode\(`)

// afterBuild, when set, sees every program of a batch after generation and
// compilation (static checks of a property that needs more than the driver).
var afterBuild func(b *genlab.Batch, pr *genlab.Prog)

// runDrivers generates batches of programs through the real CLI, builds a
// driver per batch and runs the given monitors inside it.
func runDrivers(r *core.Run, thriftrw, stream string, nProgs, batch uint64, buildFlags []string, env []string, mons []driverMon) {
	off := offSet(r)
	if r.HasOpen("KF-C13-1") && r.Property != "C13" {
		// While C13's finding on generated streaming container deserializers is
		// open, an input that slips through the routing filter can make generated
		// code ask for gigabytes; children run under a memory limit and such a
		// death is C13's (counted), not this property's verdict.
		r.CrossRoute = func(stderr string) (string, bool) {
			if oomInGeneratedDecode.MatchString(stderr) {
				return "routed_to_C13_after_out_of_memory", true
			}
			return "", false
		}
	}
	for from := uint64(0); from < nProgs; from += batch {
		to := from + batch
		if to > nProgs {
			to = nProgs
		}
		if ob := os.Getenv("VERIF_ONLY_BATCH"); ob != "" && ob != fmt.Sprint(from) {
			continue // debugging aid: one batch only
		}
		spec := genlab.NamedSpec(stream, off, from, to)
		b := genlab.Generate(r, thriftrw, fmt.Sprintf("%s-%d", stream, from), spec)
		out, _ := b.BuildAll()
		if strings.HasPrefix(out, genlab.Unattributed) || strings.Contains(out, "cannot find module") || strings.Contains(out, "missing go.sum") {
			r.Inconclusive("scratch module cannot be built: %s", tailStr(out, 400))
			b.Remove()
			return
		}
		nt, nc, nf := 0, 0, 0
		for _, pr := range b.Progs {
			r.Add("programs", 1)
			if afterBuild != nil {
				afterBuild(b, pr)
			}
			if !pr.GenOK || !pr.BuildOK {
				// C06's business; this check works with the programs that build
				r.Add("programs_skipped_not_generated_or_not_compiling", 1)
				continue
			}
			r.Add("programs_in_drivers", 1)
			for _, f := range pr.P.Files {
				for _, d := range f.Defs {
					switch d.(type) {
					case *idlmStruct, *idlmEnum, *idlmTypedef:
						nt++
					case *idlmConstant:
						nc++
					case *idlmService:
						nf++
					}
				}
			}
		}
		if err := b.WriteDriver(); err != nil {
			r.Inconclusive("cannot write driver: %v", err)
			b.Remove()
			return
		}
		bin, bout, err := b.BuildDriver(buildFlags...)
		if err != nil {
			// an error in the generated glue is a harness problem, never a verdict
			r.Inconclusive("driver of batch %s-%d does not build: %s", stream, from, tailStr(bout, 1500))
			b.Remove()
			continue
		}
		r.Add("types_exercised", int64(nt))
		for _, m := range mons {
			n := m.cases(nt, nc, nf)
			if n == 0 {
				continue
			}
			extra := append([]string{"spec=" + stream, "off=" + offClasses(r)}, m.extra...)
			r.RunChildren(core.ChildSpec{Bin: bin, Monitor: m.name, Stream: fmt.Sprintf("%s-%d-%s", stream, from, m.name), From: 0, To: n, Timeout: 20 * time.Minute, Extra: extra, Env: env, Prefix: m.name + "_"})
		}
		b.Remove()
	}
}
