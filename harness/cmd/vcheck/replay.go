package main

import (
	"encoding/json"
	"fmt"
	"os"

	"verif/harness/core"
)

// replay re-runs the recorded case: for child-stream violations it re-executes
// exactly that (stream, index) in a fresh child under the recorded seed.
func replay(id, path string) {
	b, err := os.ReadFile(path)
	if err != nil {
		core.Inconclusive("cannot read replay: %v", err)
	}
	var rec struct {
		Seed      uint64         `json:"seed"`
		Tier      string         `json:"tier"`
		Violation core.Violation `json:"violation"`
	}
	if err := json.Unmarshal(b, &rec); err != nil {
		core.Inconclusive("bad replay file: %v", err)
	}
	os.Setenv("VERIF_SEED", fmt.Sprint(rec.Seed))
	os.Setenv("VERIF_REPLAY_STREAM", rec.Violation.Stream)
	os.Setenv("VERIF_REPLAY_INDEX", fmt.Sprint(rec.Violation.Index))
	if m, ok := rec.Violation.Detail["replay_env"].(map[string]any); ok {
		for k, v := range m {
			os.Setenv(k, fmt.Sprint(v))
		}
	}
	fn := checks[id]
	if fn == nil {
		core.Inconclusive("no check for %s", id)
	}
	fmt.Printf("replaying %s stream=%s index=%d seed=%d\n", id, rec.Violation.Stream, rec.Violation.Index, rec.Seed)
	fmt.Printf("recorded: %s\n", rec.Violation.What)
	fn(core.NewRun(id, rec.Tier))
}
