package main

import (
	"bufio"
	"bytes"
	"encoding/json"
	"fmt"
	"os"
	"os/exec"
	"path/filepath"
	"regexp"
	"runtime"
	"strconv"
	"strings"
	"sync"
	"syscall"
	"time"

	"verif/harness/core"
)

func init() { checks["C16"] = c16 }

type pstep struct {
	On     string `json:"on"`
	Action string `json:"action"`
}

type pscript struct {
	ReplyName  string            `json:"reply_name"`
	APIVersion int32             `json:"api_version"`
	Features   []int32           `json:"features"`
	Files      map[string]string `json:"files"`
	Steps      []pstep           `json:"steps"`
	ExitCode   int               `json:"exit_code"`

	name string // the name the host knows the plugin by
	desc string
}

// expectation derived from a script alone
type pexpect struct {
	handshakeOK bool // handshake completes and is acceptable
	hasFeature  bool
	fails       bool   // the plugin misbehaves at some step the host reaches
	failAt      string // handshake | generate | goodbye
	aliveAfter  bool   // process still serving after its failing step
}

func apiVersion() int32 {
	b, err := os.ReadFile("/repo/plugin/api.thrift")
	if err != nil {
		core.Inconclusive("cannot read plugin/api.thrift: %v", err)
	}
	m := regexp.MustCompile(`const\s+i32\s+API_VERSION\s*=\s*(\d+)`).FindSubmatch(b)
	if m == nil {
		core.Inconclusive("API_VERSION not found in plugin/api.thrift")
	}
	v, _ := strconv.Atoi(string(m[1]))
	return int32(v)
}

var badReplies = []string{"exception", "garbage", "empty_frame", "exit_after_read", "exit_before_read", "oversize", "oversize_neg", "raw_garbage", "wrong_type"}
var benign = []string{"onebyte", "split_header"}

// expectOf interprets a script the way the protocol description does.
func expectOf(s *pscript, ver int32) pexpect {
	e := pexpect{handshakeOK: true}
	actionAt := map[string]string{}
	for _, st := range s.Steps {
		if _, dup := actionAt[st.On]; !dup {
			actionAt[st.On] = st.Action
		}
	}
	isBad := func(a string) bool {
		if strings.HasPrefix(a, "truncate:") {
			return true
		}
		for _, b := range badReplies {
			if a == b {
				return true
			}
		}
		return false
	}
	alive := func(a string) bool {
		return a == "exception" || a == "garbage" || a == "empty_frame" || a == "wrong_type"
	}
	if a := actionAt["handshake"]; isBad(a) {
		return pexpect{fails: true, failAt: "handshake", aliveAfter: alive(a)}
	}
	if s.ReplyName != s.name || s.APIVersion != ver {
		return pexpect{fails: true, failAt: "handshake", aliveAfter: true}
	}
	for _, f := range s.Features {
		if f == 1 {
			e.hasFeature = true
		}
	}
	if e.hasFeature {
		if a := actionAt["generate"]; isBad(a) {
			e.fails, e.failAt, e.aliveAfter = true, "generate", alive(a)
			return e
		}
	}
	if a := actionAt["goodbye"]; isBad(a) {
		e.fails, e.failAt, e.aliveAfter = true, "goodbye", alive(a)
	}
	return e
}

type c16Case struct {
	id      int
	plugins []*pscript
	race    bool
	strace  bool
}

type pevent struct {
	E      string `json:"e"`
	Method string `json:"method"`
	Intact bool   `json:"intact"`
	Action string `json:"action"`
	Kind   string `json:"kind"`
	Code   int    `json:"code"`
	Pid    int    `json:"pid"`
}

func readEvents(path string) []pevent {
	f, err := os.Open(path)
	if err != nil {
		return nil
	}
	defer f.Close()
	var out []pevent
	sc := bufio.NewScanner(f)
	for sc.Scan() {
		var e pevent
		if json.Unmarshal(sc.Bytes(), &e) == nil {
			out = append(out, e)
		}
	}
	return out
}

func c16(r *core.Run) {
	r.Level = "fault_enumeration"
	ver := apiVersion()
	host := r.GoBuildRepo("thriftrw", "go.uber.org/thriftrw")
	hostRace := r.GoBuildRepo("thriftrw-race", "go.uber.org/thriftrw", "-race")
	vplugin := r.GoBuild("vplugin", "./cmd/vplugin")

	base := func(name string) *pscript {
		return &pscript{ReplyName: name, APIVersion: ver, Features: []int32{1}, Files: map[string]string{"plug_" + name + "/out.txt": "from " + name}, name: name}
	}
	// reply frame lengths for exhaustive truncation
	frameLen := func(kind string) int {
		tmp := filepath.Join(r.Scratch, "len.json")
		b, _ := json.Marshal(base("plugA"))
		os.WriteFile(tmp, b, 0o644)
		out, err := exec.Command(vplugin, "-len", tmp, kind).Output()
		if err != nil {
			core.Inconclusive("vplugin -len failed: %v", err)
		}
		n, _ := strconv.Atoi(strings.TrimSpace(string(out)))
		return n
	}

	var cases []*c16Case
	add := func(c *c16Case) { c.id = len(cases); cases = append(cases, c) }
	single := func(desc string, mut func(s *pscript)) {
		s := base("plugA")
		mut(s)
		s.desc = desc
		add(&c16Case{plugins: []*pscript{s}})
	}
	// --- complete single-plugin enumeration
	single("conforming", func(s *pscript) {})
	single("no service-generator feature", func(s *pscript) { s.Features = nil })
	single("unknown extra feature", func(s *pscript) { s.Features = []int32{1, 77} })
	single("wrong name", func(s *pscript) { s.ReplyName = "other" })
	single("wrong api version", func(s *pscript) { s.APIVersion = ver + 1 })
	single("exits non-zero at the end", func(s *pscript) { s.ExitCode = 3 })
	for _, on := range []string{"handshake", "generate", "goodbye"} {
		for _, a := range append(append([]string{}, badReplies...), benign...) {
			on, a := on, a
			single(on+":"+a, func(s *pscript) { s.Steps = []pstep{{on, a}} })
		}
		n := frameLen(on)
		stride := 1
		if r.Quick() {
			stride = 3
		}
		for k := 0; k < n; k += stride {
			on, k := on, k
			single(fmt.Sprintf("%s:truncate:%d/%d", on, k, n), func(s *pscript) { s.Steps = []pstep{{on, fmt.Sprintf("truncate:%d", k)}} })
		}
	}
	nSingle := len(cases)
	// --- 2..3 concurrent plugins with independent scripts (random)
	multi := r.Pick(300, 3000)
	rr := core.NewRand(r.Seed, "c16-multi", 0)
	allActs := append(append([]string{"ok", "ok", "ok"}, badReplies...), benign...)
	for k := 0; k < multi; k++ {
		c := &c16Case{race: k%2 == 0}
		np := rr.Range(2, 3)
		for p := 0; p < np; p++ {
			s := base(fmt.Sprintf("plug%c", 'A'+p))
			switch rr.Intn(8) {
			case 0:
				s.ReplyName = "bogus"
			case 1:
				s.APIVersion = ver - 1
			case 2:
				s.Features = nil
			}
			if rr.Chance(1, 2) {
				on := []string{"handshake", "generate", "goodbye"}[rr.Intn(3)]
				a := allActs[rr.Intn(len(allActs))]
				if rr.Chance(1, 5) {
					a = fmt.Sprintf("truncate:%d", rr.Intn(30)) // shorter than every reply frame
				}
				if a != "ok" {
					s.Steps = []pstep{{on, a}}
				}
			}
			if rr.Chance(1, 6) {
				// two plugins writing the same path: a conflict the host must report
				s.Files = map[string]string{"shared/clash.txt": "x"}
			}
			s.desc = fmt.Sprintf("%s/%v", s.ReplyName, s.Steps)
			c.plugins = append(c.plugins, s)
		}
		add(c)
	}
	// strace a sample (every case in thorough single-plugin enumeration, 1 in 6 in quick)
	for i, c := range cases {
		if !r.Quick() && i < nSingle || i%6 == 0 {
			c.strace = true
		}
	}
	if r.Replay {
		var keep []*c16Case
		for _, c := range cases {
			if uint64(c.id) == r.ReplayIndex {
				keep = append(keep, c)
			}
		}
		cases = keep
	}

	var wg sync.WaitGroup
	work := make(chan *c16Case)
	for w := 0; w < runtime.NumCPU(); w++ {
		wg.Add(1)
		go func() {
			defer wg.Done()
			for c := range work {
				runC16(r, c, ver, host, hostRace, vplugin)
			}
		}()
	}
	for _, c := range cases {
		work <- c
	}
	close(work)
	wg.Wait()

	r.Set("single_plugin_scripts_enumerated", int64(nSingle))
	r.Set("exhaustive", r.Tier == "thorough")
	r.Set("exhaustive_subspace", "single plugin: {conforming, feature missing, wrong name, wrong version, non-zero exit} + protocol step in {handshake, generate, goodbye} x fault in {exception envelope, garbage, empty frame, wrong message type, exit before read, exit after read, oversize length prefix (0x7fffffff and 0xffffffff), unframed garbage, 1-byte writes, split header, truncation at every byte offset of the reply frame (every 3rd offset in the quick tier)}")
	if !r.Replay {
		r.Require("runs", 100)
		r.Require("strace_runs", 10)
		r.Require("race_host_runs", 10)
	}
	c16Lib(r)
	r.Assumption("the API version a plugin must announce is read from plugin/api.thrift at run time; 'naming the plugin' = the plugin's name occurs in the host's stderr")
	r.Assumption("scripted plugins always terminate (every fault ends in exit or keeps serving until stdin closes); plugins that ignore EOF are outside the quantifier")
	r.FinishStd("the real thriftrw binary (plain and -race builds) run against 1..3 scripted fake plugin executables; per-plugin event traces are checked offline against the protocol automaton (generate only after an acceptable handshake, exactly one goodbye to every plugin whose handshake succeeded and that is still serving, none otherwise, frames intact under 1-byte writes), exit status and stderr against the scripts, strace -f records against 'every started plugin is waited for and its pipes closed before the host exits'; plus plugin.Main driven over in-memory pipes. non-trivial = every run, distinct by script set", "cases")
}

var waitRe = regexp.MustCompile(`waitid\(P_PIDFD, \d+, \{si_signo=SIGCHLD, si_code=CLD_(EXITED|KILLED|DUMPED), si_pid=(\d+)`)
var sipidRe = regexp.MustCompile(`si_pid=(\d+)`)
var wait4Re = regexp.MustCompile(`wait4\((-?\d+), .*\) = (\d+)`)
var execRe = regexp.MustCompile(`^(\d+) +execve\("([^"]*thriftrw-plugin-[^"]*)"`)

func runC16(r *core.Run, c *c16Case, ver int32, host, hostRace, vplugin string) {
	dir := filepath.Join(r.Scratch, fmt.Sprintf("run-%d", c.id))
	bin := filepath.Join(dir, "bin")
	os.MkdirAll(bin, 0o755)
	os.MkdirAll(filepath.Join(dir, "idl"), 0o755)
	os.MkdirAll(filepath.Join(dir, "out"), 0o755)
	defer os.RemoveAll(dir)
	os.WriteFile(filepath.Join(dir, "idl", "svc.thrift"), []byte("struct Req {\n  1: optional string a\n}\nservice KV {\n  string get(1: Req r)\n}\n"), 0o644)
	args := []string{"--out", filepath.Join(dir, "out"), "--pkg-prefix", "example.com/gen"}
	var descs []string
	for _, p := range c.plugins {
		os.Symlink(vplugin, filepath.Join(bin, "thriftrw-plugin-"+p.name))
		sp := filepath.Join(dir, p.name+".script.json")
		b, _ := json.Marshal(p)
		os.WriteFile(sp, b, 0o644)
		args = append(args, "--plugin", fmt.Sprintf("%s %s %s", p.name, sp, filepath.Join(dir, p.name+".events.jsonl")))
		descs = append(descs, p.name+": "+p.desc)
	}
	args = append(args, filepath.Join(dir, "idl", "svc.thrift"))
	exe := host
	if c.race {
		exe = hostRace
	}
	var cmd *exec.Cmd
	straceLog := filepath.Join(dir, "strace.log")
	if c.strace {
		cmd = exec.Command("strace", append([]string{"-f", "-o", straceLog, "-e", "trace=execve,waitid,wait4,exit_group,pipe2,close", exe}, args...)...)
	} else {
		cmd = exec.Command(exe, args...)
	}
	cmd.Env = append(os.Environ(), "PATH="+bin+":"+os.Getenv("PATH"), "GORACE=halt_on_error=0 exitcode=0 log_path="+filepath.Join(dir, "race"))
	var stderr, stdout bytes.Buffer
	cmd.Stderr = &stderr
	cmd.Stdout = &stdout
	cmd.SysProcAttr = &syscall.SysProcAttr{Setpgid: true}
	start := time.Now()
	if err := cmd.Start(); err != nil {
		r.Inconclusive("cannot start host: %v", err)
		return
	}
	done := make(chan error, 1)
	go func() { done <- cmd.Wait() }()
	hung := false
	var werr error
	select {
	case werr = <-done:
	case <-time.After(120 * time.Second):
		hung = true
		syscall.Kill(-cmd.Process.Pid, syscall.SIGKILL)
		werr = <-done
	}
	exit := 0
	if werr != nil {
		exit = 1
		if ee, ok := werr.(*exec.ExitError); ok {
			exit = ee.ExitCode()
		}
	}
	r.Add("runs", 1)
	r.Add("cases", 1)
	if c.race {
		r.Add("race_host_runs", 1)
	}
	det := func() map[string]any {
		d := map[string]any{"plugins": descs, "exit": exit, "stderr": tailStr(stderr.String(), 1500), "race_build": c.race, "wall_s": time.Since(start).Seconds()}
		for _, p := range c.plugins {
			d["events_"+p.name] = readEvents(filepath.Join(dir, p.name+".events.jsonl"))
		}
		return d
	}
	viol := func(what string) {
		r.Violate(core.Violation{Stream: "c16", Index: uint64(c.id), What: what + "  [" + strings.Join(descs, " | ") + "]", Detail: det()})
	}
	if hung {
		viol("host did not finish within 120 s (killed)")
		return
	}
	if strings.Contains(stderr.String(), "panic:") || strings.Contains(stderr.String(), "fatal error:") {
		viol("host panicked")
		return
	}
	// race reports of the host
	if files, _ := filepath.Glob(filepath.Join(dir, "race.*")); len(files) > 0 {
		b, _ := os.ReadFile(files[0])
		if bytes.Contains(b, []byte("DATA RACE")) {
			r.Violate(core.Violation{Stream: "c16", Index: uint64(c.id), Sig: "race", What: "data race in the host reported by the race detector", Detail: map[string]any{"report": tailStr(string(b), 4000), "plugins": descs}})
		}
	}
	// wait for plugin processes to finish writing their logs
	deadline := time.Now().Add(10 * time.Second)
	for {
		all := true
		for _, p := range c.plugins {
			evs := readEvents(filepath.Join(dir, p.name+".events.jsonl"))
			if len(evs) == 0 || evs[len(evs)-1].E != "exit" {
				all = false
			}
		}
		if all || time.Now().After(deadline) {
			break
		}
		time.Sleep(20 * time.Millisecond)
	}
	anyFail := false
	anyHandshakeFail := false
	exps := make([]pexpect, len(c.plugins))
	for i, p := range c.plugins {
		exps[i] = expectOf(p, ver)
		if exps[i].fails {
			anyFail = true
			if exps[i].failAt == "handshake" {
				anyHandshakeFail = true
			}
		}
	}
	// path conflicts between plugins are failures of the run as well
	conflict := false
	if !anyHandshakeFail {
		seen := map[string]string{}
		for i, p := range c.plugins {
			if !exps[i].hasFeature || (exps[i].fails && exps[i].failAt == "generate") {
				continue
			}
			for f := range p.Files {
				if o, ok := seen[f]; ok && o != p.name {
					conflict = true
				}
				seen[f] = p.name
			}
		}
	}
	for i, p := range c.plugins {
		e := exps[i]
		evs := readEvents(filepath.Join(dir, p.name+".events.jsonl"))
		started := false
		var recv []string
		exited := false
		for _, ev := range evs {
			switch ev.E {
			case "start":
				started = true
			case "recv":
				recv = append(recv, ev.Method)
				if !ev.Intact {
					viol(fmt.Sprintf("plugin %s received a frame that is not one intact request (%s)", p.name, ev.Method))
				}
			case "exit":
				exited = true
			}
		}
		if !started {
			viol(fmt.Sprintf("plugin %s was never started", p.name))
			continue
		}
		if !exited {
			viol(fmt.Sprintf("plugin %s is still running 10 s after the host exited (stdin never closed?)", p.name))
		}
		count := func(m string) int {
			n := 0
			for _, x := range recv {
				if x == m {
					n++
				}
			}
			return n
		}
		// order: handshake first
		if len(recv) > 0 && recv[0] != "Plugin:handshake" {
			viol(fmt.Sprintf("plugin %s: first request is %s, not the handshake", p.name, recv[0]))
		}
		if count("Plugin:handshake") > 1 {
			viol(fmt.Sprintf("plugin %s received %d handshakes", p.name, count("Plugin:handshake")))
		}
		gen := count("ServiceGenerator:generate")
		bye := count("Plugin:goodbye")
		handshakeAccepted := !(e.fails && e.failAt == "handshake")
		if !handshakeAccepted {
			if gen > 0 {
				viol(fmt.Sprintf("plugin %s got a generate request although its handshake was not acceptable", p.name))
			}
			if bye > 0 {
				viol(fmt.Sprintf("plugin %s got a goodbye although its handshake failed", p.name))
			}
			continue
		}
		if !e.hasFeature && gen > 0 {
			viol(fmt.Sprintf("plugin %s got a generate request without advertising the service-generator feature", p.name))
		}
		if gen > 1 {
			viol(fmt.Sprintf("plugin %s got %d generate requests in one run", p.name, gen))
		}
		leftBeforeGenerate := false
		for _, st := range p.Steps {
			if st.On == "generate" && st.Action == "exit_before_read" {
				leftBeforeGenerate = true
			}
		}
		if e.hasFeature && !anyHandshakeFail && !leftBeforeGenerate && gen != 1 && len(recv) > 0 && count("Plugin:handshake") == 1 {
			viol(fmt.Sprintf("plugin %s advertised the service generator, all handshakes succeeded, but it received %d generate requests", p.name, gen))
		}
		// goodbye: exactly one to a live plugin whose handshake succeeded
		stillServing := !(e.fails && !e.aliveAfter)
		if bye > 1 {
			viol(fmt.Sprintf("plugin %s received %d goodbyes", p.name, bye))
		}
		if stillServing && bye != 1 {
			viol(fmt.Sprintf("plugin %s completed its handshake and kept serving but received %d goodbyes", p.name, bye))
		}
		for k, m := range recv {
			if m == "Plugin:goodbye" && k != len(recv)-1 {
				viol(fmt.Sprintf("plugin %s received %s after goodbye", p.name, recv[k+1]))
			}
		}
	}
	// exit status <=> some plugin failed (or plugins conflicted); naming
	nonZeroPluginExit := false
	for i, p := range c.plugins {
		if p.ExitCode != 0 && !(exps[i].fails && exps[i].failAt == "handshake" && false) {
			nonZeroPluginExit = true
		}
	}
	shouldFail := anyFail || conflict || nonZeroPluginExit
	if shouldFail && exit == 0 {
		viol("some plugin failed but the host exited with status 0")
	}
	if !shouldFail && exit != 0 {
		viol(fmt.Sprintf("no plugin failed but the host exited with status %d", exit))
	}
	if exit != 0 {
		for i, p := range c.plugins {
			if exps[i].fails && !strings.Contains(stderr.String(), p.name) {
				// with several failing plugins the host may stop at the first; require at least one named
				named := false
				for j, q := range c.plugins {
					if exps[j].fails && strings.Contains(stderr.String(), q.name) {
						named = true
					}
				}
				if !named {
					viol("the host failed without naming any failing plugin in its diagnostics")
				}
				break
			}
		}
	}
	if !shouldFail {
		for i, p := range c.plugins {
			if !exps[i].hasFeature {
				continue
			}
			for f, content := range p.Files {
				b, err := os.ReadFile(filepath.Join(dir, "out", f))
				if err != nil || string(b) != content {
					viol(fmt.Sprintf("file %s returned by plugin %s was not written intact", f, p.name))
				}
			}
		}
	}
	if c.strace {
		r.Add("strace_runs", 1)
		checkStrace(r, c, straceLog, viol)
	}
	var key []byte
	for _, p := range c.plugins {
		b, _ := json.Marshal(p)
		key = append(key, b...)
	}
	r.AddDistinct(core.HashBytes(key))
	if c.id%40 == 0 {
		r.Sample(map[string]any{"case": c.id, "plugins": descs, "exit": exit, "stderr_head": headStr(stderr.String(), 200), "events_first_plugin": readEvents(filepath.Join(dir, c.plugins[0].name+".events.jsonl"))})
	}
}

func tailStr(s string, n int) string {
	if len(s) > n {
		return s[len(s)-n:]
	}
	return s
}
func headStr(s string, n int) string {
	if len(s) > n {
		return s[:n]
	}
	return s
}

// checkStrace: every plugin process the host exec'ed was waited for before the
// host's exit_group.
func checkStrace(r *core.Run, c *c16Case, log string, viol func(string)) {
	b, err := os.ReadFile(log)
	if err != nil {
		r.Inconclusive("strace log missing")
		return
	}
	plugPids := map[string]string{}
	waited := map[string]bool{}
	for _, line := range strings.Split(string(b), "\n") {
		if m := execRe.FindStringSubmatch(line); m != nil {
			plugPids[m[1]] = filepath.Base(m[2])
		}
		if m := waitRe.FindStringSubmatch(line); m != nil {
			waited[m[2]] = true
		}
		// "<... waitid resumed>{si_signo=SIGCHLD, ..., si_pid=N" when another
		// thread's line interleaved
		if strings.Contains(line, "waitid") && strings.Contains(line, "SIGCHLD") {
			if m := sipidRe.FindStringSubmatch(line); m != nil {
				waited[m[1]] = true
			}
		}
		if m := wait4Re.FindStringSubmatch(line); m != nil {
			waited[m[2]] = true
		}
	}
	if len(plugPids) != len(c.plugins) {
		r.Add("strace_plugin_count_mismatch", 1)
	}
	for pid, name := range plugPids {
		r.Add("strace_plugin_processes", 1)
		if !waited[pid] {
			viol(fmt.Sprintf("host never waited for plugin process %s (pid %s): not reaped", name, pid))
		} else {
			r.Add("strace_reaped", 1)
		}
	}
}

// c16Lib: plugin.Main over in-memory pipes (child links the plugin library).
func c16Lib(r *core.Run) {
	bin := r.GoBuild("vchild", "./cmd/vchild")
	r.RunChildren(core.ChildSpec{Bin: bin, Monitor: "c16lib", Stream: "lib", From: 0, To: uint64(r.Pick(200, 4000)), Timeout: 10 * time.Minute, Procs: 4, Extra: []string{fmt.Sprintf("apiversion=%d", apiVersion())}})
	if !r.Replay {
		r.Require("lib_sessions", 50)
	}
}
