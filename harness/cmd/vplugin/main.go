// vplugin is a scripted fake ThriftRW plugin. It speaks the plugin protocol
// (framed, enveloped Thrift binary over stdin/stdout) with the reference codec
// only - it imports nothing from thriftrw - follows a fault script and writes
// an event log that the harness checks against the protocol automaton.
//
//	thriftrw-plugin-<name> <script.json> <events.jsonl>
package main

import (
	"bufio"
	"encoding/binary"
	"encoding/json"
	"fmt"
	"io"
	"os"
	"strconv"
	"strings"
	"time"

	rc "verif/harness/refcodec"
)

type step struct {
	On     string `json:"on"`     // handshake | generate | goodbye | any
	Action string `json:"action"` // see perform
}

type script struct {
	ReplyName  string            `json:"reply_name"`
	APIVersion int32             `json:"api_version"`
	Features   []int32           `json:"features"`
	Files      map[string]string `json:"files"` // generate response
	Steps      []step            `json:"steps"`
	ExitCode   int               `json:"exit_code"`
	// IgnoreEOF: not used for "hang forever" (scripts always end in exit)
}

var events *os.File
var lastServed string

func ev(kind string, kv ...any) {
	m := map[string]any{"e": kind, "t": time.Now().UnixNano(), "pid": os.Getpid()}
	for i := 0; i+1 < len(kv); i += 2 {
		m[fmt.Sprint(kv[i])] = kv[i+1]
	}
	b, _ := json.Marshal(m)
	events.Write(append(b, '\n'))
}

func exit(code int) {
	ev("exit", "code", code)
	events.Close()
	os.Exit(code)
}

func main() {
	if len(os.Args) < 3 {
		fmt.Fprintln(os.Stderr, "usage: vplugin script.json events.jsonl")
		os.Exit(64)
	}
	var sc script
	b, err := os.ReadFile(os.Args[1])
	if err == nil {
		err = json.Unmarshal(b, &sc)
	}
	events, _ = os.OpenFile(os.Args[2], os.O_CREATE|os.O_WRONLY|os.O_APPEND, 0o644)
	if err != nil {
		ev("bad_script", "err", err.Error())
		exit(65)
	}
	ev("start", "args", os.Args[1:])
	in := bufio.NewReader(os.Stdin)
	out := os.Stdout
	next := 0
	for {
		// a step that acts before reading
		if next < len(sc.Steps) && sc.Steps[next].Action == "exit_before_read" {
			// leave right before the request of that step would be read, i.e.
			// as soon as the step that precedes it has been served
			on := sc.Steps[next].On
			hasGen := false
			for _, f := range sc.Features {
				if f == 1 {
					hasGen = true
				}
			}
			due := on == "any" || (on == "handshake" && lastServed == "") || (on == "generate" && lastServed == "handshake" && hasGen) ||
				(on == "goodbye" && (lastServed == "generate" || (lastServed == "handshake" && !hasGen)))
			if due {
				ev("fault", "action", "exit_before_read", "step", next, "on", on)
				exit(sc.ExitCode)
			}
		}
		var lenb [4]byte
		if _, err := io.ReadFull(in, lenb[:]); err != nil {
			ev("stdin_eof", "err", err.Error())
			exit(sc.ExitCode)
		}
		n := binary.BigEndian.Uint32(lenb[:])
		payload := make([]byte, n)
		if _, err := io.ReadFull(in, payload); err != nil {
			ev("short_request", "want", n, "err", err.Error())
			exit(sc.ExitCode)
		}
		framing, env, used, derr := rc.DecodeMessage(payload)
		method := string(env.Name)
		ev("recv", "method", method, "type", env.Type, "seq", env.SeqID, "framing", framing, "intact", derr == nil && used == len(payload), "bytes", len(payload))
		kind := "other"
		switch method {
		case "Plugin:handshake":
			kind = "handshake"
		case "Plugin:goodbye":
			kind = "goodbye"
		case "ServiceGenerator:generate":
			kind = "generate"
		}
		action := "ok"
		if next < len(sc.Steps) && (sc.Steps[next].On == kind || sc.Steps[next].On == "any") {
			action = sc.Steps[next].Action
			next++
		}
		if action == "exit_before_read" {
			action = "exit_after_read" // the request arrived before the plugin could leave
		}
		perform(out, &sc, kind, env, action)
		lastServed = kind
		if kind == "goodbye" && action == "ok" {
			// a conforming plugin stops serving after goodbye
			ev("served_goodbye")
			// wait for stdin to close (the host closes our pipes), then exit
			io.Copy(io.Discard, in)
			ev("stdin_eof", "err", "EOF after goodbye")
			exit(sc.ExitCode)
		}
	}
}

func okBody(sc *script, kind string) rc.W {
	switch kind {
	case "handshake":
		feats := make([]rc.W, len(sc.Features))
		for i, f := range sc.Features {
			feats[i] = rc.I32(f)
		}
		resp := rc.Struct(
			rc.Field{ID: 1, V: rc.Binary([]byte(sc.ReplyName))},
			rc.Field{ID: 2, V: rc.I32(sc.APIVersion)},
			rc.Field{ID: 3, V: rc.List(rc.TI32, feats...)},
			rc.Field{ID: 4, V: rc.Binary([]byte("0.0.0-fake"))},
		)
		return rc.Struct(rc.Field{ID: 0, V: resp})
	case "generate":
		var kv []rc.W
		for p, c := range sc.Files {
			kv = append(kv, rc.Binary([]byte(p)), rc.Binary([]byte(c)))
		}
		return rc.Struct(rc.Field{ID: 0, V: rc.Struct(rc.Field{ID: 1, V: rc.Map(rc.TBinary, rc.TBinary, kv...)})})
	}
	return rc.Struct() // goodbye: void result
}

func perform(out *os.File, sc *script, kind string, req rc.Envelope, action string) {
	reply := rc.Envelope{Name: req.Name, Type: rc.Reply, SeqID: req.SeqID, Body: okBody(sc, kind)}
	write := func(b []byte) {
		out.Write(b)
	}
	switch {
	case action == "ok":
		write(rc.Frame(rc.AppendStrict(nil, reply)))
		ev("reply", "kind", kind, "action", "ok")
	case action == "exception":
		reply.Type = rc.Exception
		reply.Body = rc.Struct(rc.Field{ID: 1, V: rc.Binary([]byte("scripted failure"))}, rc.Field{ID: 2, V: rc.I32(6)})
		write(rc.Frame(rc.AppendStrict(nil, reply)))
		ev("reply", "kind", kind, "action", action)
	case action == "garbage":
		write(rc.Frame([]byte{0xde, 0xad, 0xbe, 0xef, 0x01, 0x02, 0x03}))
		ev("reply", "kind", kind, "action", action)
	case action == "empty_frame":
		write(rc.Frame(nil))
		ev("reply", "kind", kind, "action", action)
	case action == "wrong_type":
		reply.Type = rc.Call
		write(rc.Frame(rc.AppendStrict(nil, reply)))
		ev("reply", "kind", kind, "action", action)
	case action == "onebyte":
		b := rc.Frame(rc.AppendStrict(nil, reply))
		for i := range b {
			write(b[i : i+1])
			if i%7 == 0 {
				time.Sleep(50 * time.Microsecond)
			}
		}
		ev("reply", "kind", kind, "action", action, "bytes", len(b))
	case action == "split_header":
		b := rc.Frame(rc.AppendStrict(nil, reply))
		write(b[:2])
		time.Sleep(2 * time.Millisecond)
		write(b[2:5])
		time.Sleep(2 * time.Millisecond)
		write(b[5:])
		ev("reply", "kind", kind, "action", action)
	case strings.HasPrefix(action, "truncate:"):
		b := rc.Frame(rc.AppendStrict(nil, reply))
		n, _ := strconv.Atoi(strings.TrimPrefix(action, "truncate:"))
		if n > len(b) {
			n = len(b)
		}
		write(b[:n])
		ev("fault", "action", "truncate", "kind", kind, "written", n, "of", len(b))
		exit(sc.ExitCode)
	case action == "exit_after_read":
		ev("fault", "action", action, "kind", kind)
		exit(sc.ExitCode)
	case action == "oversize_neg":
		// a length prefix with the top bit set
		write([]byte{0xff, 0xff, 0xff, 0xff, 1, 2, 3})
		ev("fault", "action", action, "kind", kind)
		exit(sc.ExitCode)
	case action == "raw_garbage":
		// bytes that are not a frame at all
		write([]byte{0xde, 0xad, 0xbe, 0xef, 0xca, 0xfe, 0xba, 0xbe, 0x80, 0x00})
		ev("fault", "action", action, "kind", kind)
		exit(sc.ExitCode)
	case action == "oversize":
		write([]byte{0x7f, 0xff, 0xff, 0xff, 1, 2, 3})
		ev("fault", "action", action, "kind", kind)
		exit(sc.ExitCode)
	default:
		ev("bad_action", "action", action)
		exit(66)
	}
}

// ReplyLen reports the length of the ok reply frame for a kind (used by the
// harness to enumerate truncation offsets); invoked as: vplugin -len <script> <kind>
func init() {
	if len(os.Args) == 4 && os.Args[1] == "-len" {
		var sc script
		b, _ := os.ReadFile(os.Args[2])
		json.Unmarshal(b, &sc)
		name := map[string]string{"handshake": "Plugin:handshake", "goodbye": "Plugin:goodbye", "generate": "ServiceGenerator:generate"}[os.Args[3]]
		reply := rc.Envelope{Name: []byte(name), Type: rc.Reply, SeqID: 1, Body: okBody(&sc, os.Args[3])}
		fmt.Println(len(rc.Frame(rc.AppendStrict(nil, reply))))
		os.Exit(0)
	}
}
