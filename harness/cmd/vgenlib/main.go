// vgenlib calls the library entry point gen.Generate directly, without the
// ancestry check of the command line: vgenlib <out dir> <thrift root> <input>
// [no-recurse]. Exit 0 on success, 1 when compile or generate reports an error.
package main

import (
	"fmt"
	"os"

	"go.uber.org/thriftrw/compile"
	"go.uber.org/thriftrw/gen"
)

func main() {
	if len(os.Args) < 4 {
		fmt.Fprintln(os.Stderr, "usage: vgenlib <out> <thrift root> <input> [no-recurse]")
		os.Exit(2)
	}
	m, err := compile.Compile(os.Args[3])
	if err != nil {
		fmt.Fprintln(os.Stderr, "compile:", err)
		os.Exit(1)
	}
	o := &gen.Options{OutputDir: os.Args[1], PackagePrefix: "example.com/gen", ThriftRoot: os.Args[2], NoVersionCheck: true}
	if len(os.Args) > 4 && os.Args[4] == "no-recurse" {
		o.NoRecurse = true
	}
	if err := gen.Generate(m, o); err != nil {
		fmt.Fprintln(os.Stderr, "generate:", err)
		os.Exit(1)
	}
}
