// vgenlib calls the library entry point gen.Generate directly, without the
// ancestry check of the command line: vgenlib <out dir> <thrift root> <input>
// [no-recurse] [plugin=<json file: path -> contents>]. With plugin=, an in-process
// api.ServiceGenerator returns those files (no transport, so no path check of
// the transport applies). Exit 0 on success, 1 when compile or generate
// reports an error.
package main

import (
	"encoding/json"
	"fmt"
	"os"
	"strings"

	"go.uber.org/thriftrw/compile"
	"go.uber.org/thriftrw/gen"
	"go.uber.org/thriftrw/plugin/api"
)

type inproc struct{ files map[string]string }

func (p inproc) Generate(*api.GenerateServiceRequest) (*api.GenerateServiceResponse, error) {
	res := &api.GenerateServiceResponse{Files: map[string][]byte{}}
	for k, v := range p.files {
		res.Files[k] = []byte(v)
	}
	return res, nil
}

func main() {
	if len(os.Args) < 4 {
		fmt.Fprintln(os.Stderr, "usage: vgenlib <out> <thrift root> <input> [no-recurse]")
		os.Exit(2)
	}
	m, err := compile.Compile(os.Args[3])
	if err != nil {
		fmt.Fprintln(os.Stderr, "compile:", err)
		os.Exit(1)
	}
	o := &gen.Options{OutputDir: os.Args[1], PackagePrefix: "example.com/gen", ThriftRoot: os.Args[2], NoVersionCheck: true}
	for _, a := range os.Args[4:] {
		if a == "no-recurse" {
			o.NoRecurse = true
		}
		if f, ok := strings.CutPrefix(a, "plugin="); ok {
			b, err := os.ReadFile(f)
			var files map[string]string
			if err == nil {
				err = json.Unmarshal(b, &files)
			}
			if err != nil {
				fmt.Fprintln(os.Stderr, "vgenlib:", err)
				os.Exit(2)
			}
			o.Plugin = gen.CodeGenerator{ServiceGenerator: inproc{files}}
		}
	}
	if err := gen.Generate(m, o); err != nil {
		fmt.Fprintln(os.Stderr, "generate:", err)
		os.Exit(1)
	}
}
