// genselftest exercises the program generators on their own (no thriftrw):
// every program is drawn twice and must come out identical (map-iteration
// independence), and no draw may panic. Usage: genselftest <seed> <n>
package main

import (
	"fmt"
	"os"
	"runtime/debug"
	"strconv"
	"sync"

	"verif/harness/core"
	"verif/harness/genlab"
	"verif/harness/idlm"
)

func text(p *idlm.Program) string {
	s := ""
	for _, f := range p.Files {
		s += f.Path + "\x00" + f.Text + "\x00"
	}
	return s
}

func main() {
	seed, _ := strconv.ParseUint(os.Args[1], 10, 64)
	n, _ := strconv.ParseUint(os.Args[2], 10, 64)
	var mu sync.Mutex
	bad := 0
	report := func(f string, a ...any) {
		mu.Lock()
		bad++
		if bad <= 20 {
			fmt.Printf(f+"\n", a...)
		}
		mu.Unlock()
	}
	type job struct {
		name string
		draw func(i uint64) string
	}
	var jobs []job
	for _, st := range []string{"safe", "hostile", "redact", "svc", "evo", "plug"} {
		st := st
		jobs = append(jobs, job{"stream " + st, func(i uint64) string {
			spec := genlab.NamedSpec(st, map[string]bool{"struct-literal-in-default-on-type-cycle": true}, 0, 0)
			pr := genlab.Derive(seed, spec, i)
			return text(pr.P) + pr.CLI.String()
		}})
	}
	for k, o := range []idlm.SemOpts{
		{MaxFiles: 5, MaxDefs: 6, Services: true, Constants: true, Defaults: true, Dirs: true, ForGen: true, GoAnns: true, Redact: true, PkgNameClash: true, IncludeBias: true, ServiceBias: true, ChainMode: true, ManyTypes: true},
		{MaxFiles: 5, MaxDefs: 6, Services: true, Constants: true, Defaults: true, Dirs: true, ForGen: true, GoAnns: true, PkgNameClash: true, IncludeBias: true, TypedefZoo: true},
		{MaxFiles: 4, MaxDefs: 8, Services: true, Constants: true, Defaults: true, Dirs: true, CyclicIncludes: true, DottedLocal: true, NonStrict: true},
		{MaxFiles: 3, MaxDefs: 5, Services: true, Constants: true, Defaults: true, ForGen: true, GoAnns: true},
		{MaxFiles: 4, MaxDefs: 6, Services: true, Constants: true, Defaults: true, Dirs: true, DottedLocal: true},
	} {
		o := o
		for _, off := range []bool{false, true} {
			off := off
			jobs = append(jobs, job{fmt.Sprintf("opts %d off=%v", k, off), func(i uint64) string {
				oo := o
				if off {
					oo.Off = map[string]bool{"struct-literal-in-default-on-type-cycle": true}
				}
				r := core.NewRand(seed, "selftest", i)
				p := idlm.GenProgram(r, oo)
				p.RenderAll(r, idlm.PlainLayout)
				return text(p)
			}})
		}
	}
	var wg sync.WaitGroup
	for _, j := range jobs {
		j := j
		wg.Add(1)
		go func() {
			defer wg.Done()
			for i := uint64(0); i < n; i++ {
				func() {
					defer func() {
						if p := recover(); p != nil {
							report("PANIC %s case %d: %v\n%s", j.name, i, p, debug.Stack())
						}
					}()
					a := j.draw(i)
					if b := j.draw(i); a != b {
						report("NONDETERMINISTIC %s case %d", j.name, i)
					}
				}()
			}
		}()
	}
	wg.Wait()
	fmt.Printf("genselftest: %d jobs x %d cases, %d problems\n", len(jobs), n, bad)
	if bad > 0 {
		os.Exit(1)
	}
}
