//go:build verif

package main

import (
	"bytes"
	"encoding/hex"
	"fmt"
	"os"

	"go.uber.org/thriftrw/protocol/binary"
	"go.uber.org/thriftrw/wire"
)

func main() {
	b, _ := hex.DecodeString(os.Args[1])
	v, err := binary.Default.Decode(bytes.NewReader(b), wire.TList)
	fmt.Println("decode err:", err)
	if err == nil {
		l := v.GetList()
		fmt.Println("size", l.Size(), "type", l.ValueType())
		err := l.ForEach(func(x wire.Value) error { fmt.Println("elem", x); return nil })
		fmt.Println("foreach err:", err)
	}
}
