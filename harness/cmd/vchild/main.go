//go:build verif

// vchild links the code under test (/repo's working tree, with the verif
// hooks) and runs one monitor over an index range.
package main

import (
	"verif/harness/core"
	"verif/harness/monitors/codec"
	"verif/harness/monitors/idlmon"
)

var monitors = map[string]func(*core.Child){
	"c02":     codec.C02,
	"c03":     codec.C03,
	"c12":     codec.C12,
	"c13":     codec.C13,
	"c18":     codec.C18,
	"c16lib":  codec.C16Lib,
	"c14wire": codec.C14Wire,
	"c11":     idlmon.C11,
	"c07":     idlmon.C07,
	"c09":     idlmon.C09,
	"c08":     idlmon.C08,
	"c10":     idlmon.C10,
}

func main() { core.ChildMain(monitors) }
