#!/usr/bin/env python3
"""Prints the markdown table of seeded changes from /verif/seeded/*/meta.json."""
import json, os, re
root = "/verif/seeded"
rows = []
for name in sorted(os.listdir(root)):
    mp = os.path.join(root, name, "meta.json")
    if not os.path.exists(mp):
        continue
    m = json.load(open(mp))
    summ = (m.get("summary") or m.get("description") or "").strip().replace("|", "\\|").replace("\n", " ")
    summ = re.sub(r"\s+", " ", summ)
    if len(summ) > 230:
        summ = summ[:227] + "..."
    det = []
    for c, r in sorted((m.get("detected_by") or {}).items()):
        if r.get("exit") == 1 and r.get("violations", 0) > 0:
            first = (r.get("first") or [""])[0].replace("what: ", "").replace("|", "\\|")
            if len(first) > 110:
                first = first[:107] + "..."
            det.append(f"**{c}**: {first}")
        else:
            det.append(f"{c}: not detected (exit {r.get('exit')})")
    rows.append((name, summ, "<br>".join(det) or "not run"))
print("| change | what it does | caught by (quick tier) |")
print("|---|---|---|")
for r in rows:
    print("| %s | %s | %s |" % r)
