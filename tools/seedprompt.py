#!/usr/bin/env python3
import json,sys
pid=sys.argv[1]
for l in open('/verif/properties.jsonl'):
    p=json.loads(l)
    if p['id']==pid: break
wt=f"/tmp/seed/{pid}"
out=f"/tmp/seed/{pid}-out"
print(f"""You are helping test a verification setup by seeding realistic bugs into a Go codebase (mutation testing for a research task; this is authorized and the changes never leave this sandbox).

The codebase is thriftrw-go (Uber's Thrift IDL parser, compiler, binary codec and Go code generator). You have your OWN scratch git worktree of it at {wt} . Work ONLY inside {wt} and {out} . Never touch /repo or /verif and do not read anything under /verif.

Every shell command must start with:
  export GOFLAGS=-mod=mod GOPROXY=off GOSUMDB=off GOTOOLCHAIN=local
(there is no network; the module cache is already populated). The existing test suite is run with:
  cd {wt} && go test -vet=off -count=1 -timeout 25m ./...
(it takes about 25 s and passes on the unchanged tree).

Here is one semantic PROPERTY that the library is supposed to satisfy:

  id: {p['id']}
  title: {p['title']}
  statement: {p['statement']}
  quantified over: {p['quantifier']['text']}
  why the existing tests cannot settle it: {p['why_tests_cant']}
  code it is anchored in: {', '.join(p['anchors']['files'])}

YOUR TASK: produce THREE different, independent changes to the library source (non-test .go files, or templates in them; NOT test files, NOT generated fixtures unless the change requires regenerating them - prefer changes that do not) such that each change
  (a) still compiles (go build ./... and go vet-free test compile),
  (b) still passes the ENTIRE existing test suite (command above) - verify this yourself for each change,
  (c) genuinely BREAKS the property above (some input / schedule / sequence exists for which the statement is false with your change), and
  (d) needs something SPECIFIC to manifest - a particular kind of input, a particular interleaving, a fault at a particular point, a multi-step sequence, an unusual option or type shape, or two cooperating edits that each look fine alone - NOT something that ordinary use would expose at once. Make them look like realistic mistakes a maintainer could make (an off-by-one on a rarely taken branch, a dropped check, a reordered pair of statements, a 'performance optimisation' that is wrong for a corner case, wrong handling of one type constructor in one template path, ...), not sabotage. The three changes should be of different character and touch different mechanisms.

For each change k = 1,2,3 write into {out}/k/ :
  - patch.diff : output of `git -C {wt} diff` for that change alone (relative to the unchanged HEAD; must apply with `git apply` at the repository root),
  - a demonstration: either a Go test file (say where it must be placed, e.g. demo_test.go to copy into <pkg dir>) or a small standalone program plus the exact command to run it, which FAILS (non-zero exit / test failure) with the change applied and PASSES without it. For programs that need to import thriftrw from outside, place them inside the worktree (e.g. under {wt}/internal/zzdemo/) so that they build against it; test files inside package directories are simplest.
  - meta.json : {{"property": "{p['id']}", "summary": "...one sentence on what was changed...", "needs": "...what specifically is needed for the breakage to manifest...", "demo": "...exact commands to run the demonstration from the worktree root...", "suite_passed": true}}

Procedure per change: start from a clean tree (`git -C {wt} checkout -- . && git -C {wt} clean -fdq`), make the edit, run the full suite, write the demo, confirm it fails with the edit, save the diff (excluding the demo file itself from patch.diff), revert the edit, confirm the demo passes on the clean tree, remove the demo from the tree. Leave the worktree clean at the end.

Finally reply with a short report: for each change one line (what, where, what it needs to manifest) and whether (a)-(d) were each confirmed. If you cannot find three, deliver as many as you can confirm; do not deliver unconfirmed ones.""")
