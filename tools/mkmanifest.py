#!/usr/bin/env python3
"""Regenerates /verif/MANIFEST.json from the table below and validates it."""
import json, sys
IDS=[f"C{i:02d}" for i in range(1,21)]
# id -> (level category, technique, level text, level note, design ref)
CLAIMS = {}
def claim(id, cat, technique, text, note, ref):
    CLAIMS[id]=dict(cat=cat, technique=technique, text=text, note=note, ref=ref)

claim("C02","exploration","runtime monitor: differential oracle (spec-derived reference codec) over generated and enumerated wire values; checkptr build",
 "Every generated wire value is pushed through the real encoder, stream writer, random-access decoder (with forcing, at offset 0 and k) and stream reader (7 read-segmentation classes, incl. io.EOF delivered together with the last bytes) and compared byte-for-byte / bit-for-bit with an independent codec written from the Thrift spec; a small-shape family is enumerated completely. Held on the executions observed, not a proof.",
 "trusts refcodec as the statement of the wire format; explores trees up to depth 8, binaries up to 3 MiB", "DESIGN.md §5 C02")
claim("C03","exploration","runtime monitor: self-consistency oracle (re-encode = consumed prefix, skip length, decoder agreement) + crash/hang watchdog over hostile byte strings; checkptr build",
 "Millions of hostile byte strings per run (uniform, grammar-aware evil encodings, byte mutations, every truncation offset, nesting to 10^5) are decoded by both decoder kinds in child processes (forced element by element and by wire.EvaluateValue, whose verdicts must agree); panics, fatal errors and hangs are caught by process monitoring, canonicity by re-encoding and Skip.",
 "inputs <= ~1 MiB, nesting <= 10^5; hang = watchdog + reproduction alone", "DESIGN.md §5 C03")

claim("C12","exploration","runtime monitor: differential oracle (reference envelope codec) + API-agreement oracle over generated requests under scripted read segmentation",
 "Every generated (name,type,seqid,body) is written by all envelope encoders and compared with spec bytes, read back by all envelope decoders, sent as a request in the three framings through DecodeRequest and ReadRequest under seven read-segmentation classes (seekable or not), wrong-type rejection is checked, and each response is re-decoded by the reference codec; the internal envelope client/multiplex/server loop is judged on the bytes crossing the transport; mutated byte strings check agreement of the two request APIs.",
 "trusts refcodec's envelope grammar; message types 0..127, names 1..65536 bytes", "DESIGN.md §5 C12")

claim("C13","exploration","runtime monitor: allocation (MemStats/MemProfile site attribution) and reader-call accounting around single decode calls in memory-limited child processes",
 "Short messages whose every length/count position is overwritten with 2^16..2^31-1, and with counts whose 32-bit byte-size product wraps back onto the bytes present, are pushed through every decoding API; bytes allocated (runtime.MemStats.TotalAlloc delta) and reader calls+seeks are compared with a linear bound, and an excess is attributed to its allocation site by runtime.MemProfile or by the out-of-memory trace under ulimit -v. One open finding (generated container deserializers) is matched by allocation site only.",
 "bounds C0=2 MiB (11 MiB frame reader), k=128 B/byte, calls<=64N+256; generated code = the plugin/api types compiled into thriftrw (arbitrary generated programs are not run under ulimit while KF-C13-1 is open)", "DESIGN.md §5 C13")

claim("C18","exploration","Go race detector + baseline-equality and exactly-once conservation oracles over many-goroutine stress (GOMAXPROCS grid, random yields, forced GCs, barrier-synchronised fan-out)",
 "The real codec, request APIs, generated plugin/api (de)serialisers, the frame client and the plugin fan-out run under the race detector in rounds of 2..64 goroutines with GOMAXPROCS in {1,2,16}; every operation's result is compared with its run-alone baseline, every echo reply must be the caller's own unique payload, every frame must be seen exactly once, merged plugin output must be the union and every planted conflict must be reported (also with 120-260 files per generator); decodes that fail inside nested containers run in the same mix. Evidence records overlapping operation pairs and pool recycling actually observed.",
 "interleavings are those the Go scheduler produced; generated code = the plugin/api types compiled into thriftrw", "DESIGN.md §5 C18")

claim("C11","exploration","runtime monitor: model-rendered documents with position bookkeeping compared node-by-node with the parser's tree; totality/ast.Walk monitors over mutated byte strings",
 "Documents are drawn from the full grammar in my own IDL model and rendered with randomised layout while recording each node's first-token line/column; the real parser's tree (structure, names, literal values, docstrings, positions via ast.Pos/Info.Pos) must equal the model, ast.Walk must visit exactly the tree in order with true parents, and random/token-mutated byte strings must yield exactly one of (program, non-empty positioned error list) without panicking. Two position defects that cannot be repaired without regenerating the scanner/parser are open findings, matched by signature only.",
 "the printer's bookkeeping defines 'true position'; docstring text is asserted only for unambiguous shapes", "DESIGN.md §5 C11")

claim("C07","exploration","runtime monitor: model-resolver oracle over generated multi-file programs; link orders made an explicit enumerated input through a tagged hook; natural map-order repetition",
 "Valid program sets are generated in my own IDL model (which knows every binding, typedef root and cast constant), compiled by the real compiler under natural map order, under enumerated/forced link orders (all n! per module list when n<=6) and under definition permutations; the canonical dump of the compiled module graph must equal the model's each time, shared definitions must be one object, and planted invalid programs must be rejected under every order. One order-dependent acceptance defect is an open finding kept alive by a probe; its input class is switched off in the main stream.",
 "the model resolver is the statement of Thrift scoping; hook orders are a subset of what Compile can do", "DESIGN.md §5 C07")
claim("C08","exploration","runtime monitor: process-level crash/hang monitoring of compile+generate over hostile file sets (12 reference-cycle kinds x lengths 1..5, wrong-kind references and malformed annotations, token mutations, random bytes)",
 "Each hostile file set is compiled (strict and non-strict) and, if accepted, generated in a child process; a panic is caught and reported with its stack, a fatal stack overflow or hang kills the child and the runner isolates the killing case in a fresh process. Every run must end with a module/output or an error.",
 "termination decided by watchdog + reproduction; nesting depth <= 250", "DESIGN.md §5 C08")
claim("C09","exploration","runtime monitor: numeric-rule oracle over an enumerated grid (boundary literal x numeric position x strictness)",
 "Every boundary literal is placed at every numeric position (field ids, enum values, integer constants/defaults of every width, enum-by-number, bool/double from integers); the model's range rules say accept or reject, and an accepted program's compiled numbers must equal the literals written (decimal, hex, signed, and decimal with leading zeros).",
 "the statement's numeric rules are the oracle; id 0 left open", "DESIGN.md §5 C09")
claim("C10","exploration","runtime monitor: output-equality oracle (sha256 of every generated file and of the canonically relabelled plugin request) across in-process repetitions, forced link orders and separate processes",
 "Each program is generated repeatedly in one process, under forced link orders and again in separate processes; path sets, file contents, success/failure and the plugin request (up to id renumbering) must be identical. Every sixth program is a hand-built cross-module service inheritance chain whose deep modules the root reaches only transitively, beside sibling modules that include them directly, so that an order-dependent walk of the includes changes the outcome between runs.",
 "map-order nondeterminism is sampled, not enumerated, except link orders", "DESIGN.md §5 C10")

claim("C16","fault_enumeration","offline trace checking of scripted fake-plugin event logs against the protocol automaton + exit status/stderr + strace process records + race-detector build of the host",
 "The real thriftrw binary is run against fake plugin executables that follow fault scripts (every protocol step x every fault incl. truncation at every reply byte offset, enumerated completely for one plugin; random pairs/triples for concurrency). Each plugin writes an event log; the harness checks it against the automaton (generate only after an acceptable handshake, exactly one goodbye to live handshaken plugins, none to failed ones, frames intact), checks exit status and that stderr names a failing plugin, checks with strace -f that every plugin child was waited for, and runs half of the concurrent cases on a -race host. plugin.Main is driven over in-memory pipes.",
 "plugins that never terminate are outside the quantifier; reaping is observed through strace on a sample (all single-plugin cases in thorough)", "DESIGN.md §5 C16")

claim("C17","fault_enumeration","file-system snapshot diff (whole sandbox tree: path, mode, size, sha256) around runs of the real binary with scripted fake plugins; strace of write-mode opens; exit status",
 "The real thriftrw binary runs in a sandbox parent/{thrift,out,other} with canaries and a pre-populated out directory. Enumerated: plugin path shapes (absolute, '..' forms, aliases of core and other plugins' paths, directories, NUL, deep), every named failure cause, the k-th of n modules failing (also after > 5 MiB of generated code), thrift-root layouts, the conflicting path at every position among a response's files, and the library entry point gen.Generate (child vgenlib) with a thrift root that does not contain an included file and with an in-process api.ServiceGenerator returning hostile paths; plus random combinations. Where the statement is silent (a '..' path that stays inside, an include outside the explicit root) the run may refuse or handle it; confinement and all-or-nothing are checked either way. After each run the snapshots decide confinement, conflict reporting, all-or-nothing and the expected generated paths; strace -f on a sample confirms no write-mode open outside out.",
 "failures that can only arise while writing are only checked for confinement; symlinks inside out are not explored", "DESIGN.md §5 C17")

claim("C20","exploration","runtime monitor: edit-script oracle over scratch git histories, real thriftbreak binary, readable and JSON output, repeated runs",
 "Each case builds a two-commit git repository (git CLI) from a generated multi-file program and a random script of documented breaking and compatible edits (incl. two findings on one field, renamed and deleted files); the diagnostics the script implies are known by construction and must equal, as a multiset of (file, kind, names), what the real thriftbreak binary prints in both output modes on three runs each, together with the exit status.",
 "edit kinds whose classification the documentation leaves open are not generated", "DESIGN.md §5 C20")

claim("C06","exploration","runtime monitor: the real thriftrw binary and the Go compiler as observers over generated valid (must be accepted, must compile) and hostile-name (accepted => compiles, else error) multi-file programs",
 "Programs valid by construction, and the same programs with names replaced by Go keywords, initialisms and names of generated methods/helpers, are pushed through the real CLI under random option sets and layouts into a scratch module that replaces thriftrw with the working tree; go build attributes every diagnostic to its program. A valid program rejected, an accepted program that does not compile, or a crash instead of an error is a violation.",
 "SAFE rules of Appendix A define 'valid'; go vet is not run", "DESIGN.md §5 C06")

claim("C01","exploration","runtime monitor: differential oracle (refcodec + IDL model) over generated code of random programs, values injected/extracted by reflection so serialisers and deserialisers are judged separately",
 "Random valid programs go through the real CLI, the generated packages are built into a driver whose registry hands out the generated types; for random logical values both serialisers are decoded by the reference codec and projected onto the schema, both deserialisers are fed reference encodings (shuffled order, random chunking) and read back by reflection, schema-violating Go values must be refused, accessors/constants/default constructors are compared with the model's cast literals.",
 "trusts refcodec, the model's Lower/Project/FillDefaults, and reflection-based extraction; programs that C06 would flag are skipped", "DESIGN.md §5 C01")
claim("C04","exploration","runtime monitor: pairwise path-agreement oracle (value-based vs streaming, both directions) over valid, evolved, mutated and truncated inputs under scripted read segmentation",
 "For every generated type, valid encodings, encodings with foreign fields, evil encodings, truncations and mutations are decoded through FromWire(Decode) and through Decode(stream) under several chunkings; acceptance by the value path implies acceptance and a bitwise-equal value on the stream path. Go values (valid and randomly nil-perturbed) must make both serialisers fail or produce encodings of the same value.",
 "no reference needed; inputs of the open C13 class are routed to C13", "DESIGN.md §5 C04")
claim("C05","exploration","runtime monitor: reference-projection oracle over (writer schema, evolved reader schema) program pairs compiled by the real generator, plus foreign-field injection; both decode paths",
 "Pairs of programs (W, R = W after random evolution steps) are generated by the real CLI and compiled; values of W encoded by the reference codec are decoded by R's generated code through FromWire and Decode(stream) and compared, accept/reject and value, with the reference projection of the bytes onto R's schema; valid encodings additionally get foreign fields of every type injected at every struct level and must decode to the original value.",
 "a container field whose element wire type changed may read as unset or empty (statement silent); a union whose only member is such a field has no determined outcome", "DESIGN.md §5 C05")
claim("C14","exploration","runtime monitor: equivalence-law checks plus an independent structural comparison over decoded triples (value, permuted re-encoding, single perturbation)",
 "Triples of decoded values per generated struct-like type: reflexivity, symmetry, transitivity, order-insensitivity for sets/maps, sensitivity to list order and presence, agreement with wire.ValuesAreEqual on the ToWire forms and with LKey equality of the logical values, no panic on nil receiver/argument.",
 "values free of NaN and duplicate-free after defaults, as the statement assumes", "DESIGN.md §5 C14")
claim("C15","exploration","runtime monitor: non-interference oracle (texts must not depend on hidden fields) plus unique-marker search over String/Error/zap output of generated code",
 "Programs with go.redact/go.nolog on fields of every type and depth; for value pairs that differ only in hidden fields String(), Error() and real zapcore encoder output must be identical; markers of hidden fields must not occur, markers of visible string fields must occur (under their label in zap).",
 "zap output observed through zapcore.MapObjectEncoder; visibility asserted for string-typed fields only", "DESIGN.md §5 C15")

claim("C19","exploration","Go compiler as type-identity oracle over assertion sources emitted by a real plugin (thriftrw's own plugin library, real handshake); model-based consistency check of the dumped request; reflection-driven helper round-trip monitor in the driver",
 "Service-heavy valid programs are generated by the real CLI with a real plugin attached (recursive and --no-recurse runs). The plugin formats every argument, exception and return type description with formatType into pointer-assignability assertions against the generated Args/Result structs and Helper signatures; the Go compiler decides identity. Every dumped request is checked for self-consistency and against the model of the program. In the driver the generated Helper.Args/WrapResponse/UnwrapResponse/IsException are called by reflection with generated values, every declared exception, plain errors and undeclared exception types.",
 "SAFE naming vocabulary; type shapes are those the program generator draws (evidence lists the distinct description shapes seen)", "DESIGN.md §5 C19")

NOT_IMPL = "check not implemented yet in this round (statement about the machinery, not the technique)"

def main():
    checks=[]
    for id in IDS:
        if id not in CLAIMS: continue
        c=CLAIMS[id]
        checks.append({
            "property_id": id,
            "quick_cmd": f"./check {id} quick",
            "thorough_cmd": f"./check {id} thorough",
            "evidence_file": f"/verif/evidence/{id}.json",
            "replay_cmd_template": f"./check {id} --replay {{path}}",
            "engine": "vcheck",
            "level_claimed": {"category": c["cat"], "text": c["text"], "design_ref": c["ref"]},
            "level_note": c["note"],
            "technique": c["technique"],
        })
    hooks=json.load(open("/verif/tools/hooks.json"))
    m={"version":1,
       "setup_cmd":"cd /verif && ./setup.sh",
       "hooks":hooks,
       "engines":[{"name":"vcheck","path":"/verif/harness","serves_properties":sorted(CLAIMS),"kind_free_text":"Go orchestrator + child processes linking /repo's working tree (build tag verif); independent oracles (refcodec, IDL model), race detector, strace, process monitoring"}],
       "checks":checks,
       "notes":"Family: runtime monitoring and sanitizers. See DESIGN.md. KNOWN_FINDINGS.txt lists open findings and fixed defects.",
       "not_applicable":[{"property_id":i,"reason":NOT_IMPL} for i in IDS if i not in CLAIMS]}
    json.dump(m,open("/verif/MANIFEST.json","w"),indent=1)
    try:
        import jsonschema
        jsonschema.validate(m,json.load(open('/root/.vp/MANIFEST.schema.json')))
        print("manifest valid,",len(checks),"checks")
    except ImportError:
        print("written (jsonschema not available to validate)")
main()
