#!/usr/bin/env python3
"""Confirm and evaluate seeded breaking changes.

  seed.py confirm <src dir> <name>      # e.g. /tmp/seed/C03-out/1 C03-1
      In a scratch worktree of /repo's HEAD: the demo passes on the clean tree,
      the patch applies, builds, the pinned suite passes with it, and the demo
      fails with it. On success the change is kept as /verif/seeded/<name>/.
  seed.py detect <name> [check ids...]  # apply to /repo, run quick checks, undo
"""
import json, os, re, shutil, subprocess, sys, time

ENV = dict(os.environ, GOFLAGS="-mod=mod", GOPROXY="off", GOSUMDB="off", GOTOOLCHAIN="local")
SEEDED = "/verif/seeded"


def sh(cmd, cwd=None, timeout=3600):
    p = subprocess.run(cmd, shell=True, cwd=cwd, env=ENV, stdout=subprocess.PIPE, stderr=subprocess.STDOUT, timeout=timeout, text=True, errors="replace")
    return p.returncode, p.stdout


def demo_result(out):
    if re.search(r"^(--- FAIL|FAIL|panic:|fatal error:)", out, re.M) or "[build failed]" in out:
        return "fail"
    if re.search(r"^ok\s", out, re.M) or re.search(r"^PASS", out, re.M):
        return "pass"
    return "unknown"


def confirm(src, name):
    meta = json.load(open(os.path.join(src, "meta.json")))
    wt = f"/tmp/seedconf/{name}"
    sh(f"git -C /repo worktree remove --force {wt}")
    shutil.rmtree(wt, ignore_errors=True)
    rc, out = sh(f"git -C /repo worktree add --detach {wt} HEAD")
    if rc:
        print("worktree failed", out); return False
    report = {}
    try:
        demo = meta["demo"]
        # the agents' commands refer to their own out dir; those paths stay valid
        rc, out = sh(demo, cwd=wt)
        report["demo_clean"] = demo_result(out)
        report["demo_clean_tail"] = out[-1500:]
        sh("git clean -fdq && git checkout -q -- .", cwd=wt)
        rc, out = sh(f"git apply {os.path.join(src, 'patch.diff')}", cwd=wt)
        report["applies"] = rc == 0
        if rc:
            report["apply_err"] = out[-800:]
            print(json.dumps(report, indent=1)); return False
        rc, out = sh("go build ./... && go vet ./... >/dev/null 2>&1; go build ./...", cwd=wt)
        report["builds"] = rc == 0
        rc, out = sh("go test -vet=off -count=1 -timeout 25m ./... 2>&1 | grep -v '^ok\\|no test files'", cwd=wt)
        report["suite_passes"] = out.strip() == ""
        report["suite_tail"] = out[-800:]
        rc, out = sh(demo, cwd=wt)
        report["demo_patched"] = demo_result(out)
        report["demo_patched_tail"] = out[-1500:]
    finally:
        sh(f"git -C /repo worktree remove --force {wt}")
        shutil.rmtree(wt, ignore_errors=True)
    ok = report.get("demo_clean") == "pass" and report.get("applies") and report.get("builds") and report.get("suite_passes") and report.get("demo_patched") == "fail"
    print(name, "CONFIRMED" if ok else "NOT CONFIRMED")
    if not ok:
        print(json.dumps(report, indent=1))
        return False
    dst = os.path.join(SEEDED, name)
    os.makedirs(dst, exist_ok=True)
    for f in os.listdir(src):
        if f != "meta.json":
            shutil.copy(os.path.join(src, f), dst)
    meta["confirmed"] = {k: report[k] for k in ("demo_clean", "applies", "builds", "suite_passes", "demo_patched")}
    meta["confirmed_how"] = "tools/seed.py confirm: scratch worktree of /repo HEAD; demo on clean tree, git apply, go build, pinned suite, demo on patched tree"
    meta["confirmed_at_repo_commit"] = sh("git -C /repo log --format=%h -1")[1].strip()
    meta.setdefault("detected_by", {})
    json.dump(meta, open(os.path.join(dst, "meta.json"), "w"), indent=1)
    return True


def detect(name, checks):
    dst = os.path.join(SEEDED, name)
    meta = json.load(open(os.path.join(dst, "meta.json")))
    if not checks:
        checks = [meta["property"]]
    rc, out = sh("git -C /repo status --porcelain")
    if out.strip():
        print("/repo is not clean; refusing"); return
    # evidence written while a seed is applied must not replace the real evidence
    bak = "/var/tmp/verif-evidence-backup-%d" % os.getpid()
    shutil.rmtree(bak, ignore_errors=True)
    if os.path.isdir("/verif/evidence"):
        shutil.copytree("/verif/evidence", bak)
    rc, out = sh(f"git -C /repo apply {dst}/patch.diff")
    if rc:
        print("patch does not apply to /repo:", out); return
    try:
        for c in checks:
            t0 = time.time()
            rc, out = sh(f"./check {c} quick", cwd="/verif", timeout=3600)
            viol = [l for l in out.splitlines() if l.startswith("VIOLATION")]
            what = [l.strip() for l in out.splitlines() if l.strip().startswith("what:")]
            res = {"exit": rc, "violations": len(viol), "first": what[:2], "wall_s": round(time.time() - t0, 1)}
            if rc not in (0, 1):
                res["tail"] = out[-600:]
            meta["detected_by"][c] = res
            print(name, c, "exit", rc, "violations", len(viol), what[:1])
    finally:
        sh("git -C /repo checkout -- . && git -C /repo clean -fdq")
        shutil.rmtree("/verif/replays", ignore_errors=True)
        if os.path.isdir(bak):
            shutil.rmtree("/verif/evidence", ignore_errors=True)
            shutil.copytree(bak, "/verif/evidence")
            shutil.rmtree(bak, ignore_errors=True)
    json.dump(meta, open(os.path.join(dst, "meta.json"), "w"), indent=1)


if __name__ == "__main__":
    if sys.argv[1] == "confirm":
        confirm(sys.argv[2], sys.argv[3])
    elif sys.argv[1] == "detect":
        detect(sys.argv[2], sys.argv[3:])
