#!/bin/bash
# Builds the orchestrator (which links no thriftrw code under test). Offline.
set -e
HERE="$(cd "$(dirname "${BASH_SOURCE[0]}")" && pwd)"
cd "$HERE"
. "$HERE/env.sh"
mkdir -p bin
cd harness
cp /repo/go.sum go.sum
go build -o "$HERE/bin/vcheck" ./cmd/vcheck
echo setup ok
