#!/bin/bash
# Builds the orchestrator (which links no thriftrw code under test). Offline.
set -e
cd /verif
. ./env.sh
mkdir -p bin
cd harness
cp /repo/go.sum go.sum
go build -o /verif/bin/vcheck ./cmd/vcheck
echo setup ok
